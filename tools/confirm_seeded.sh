#!/bin/bash
# tools/confirm_seeded.sh <candidate_dir> <new_id>: confirms a candidate property-breaking change in a
# fresh scratch worktree of /repo (demo passes without / fails with the change, suite passes with it)
# and, if confirmed, keeps it as seeded/<new_id>/ (patch.diff, demo.py, meta.json).
src=$1; id=$2
VERIF=$(cd "$(dirname "$0")/.." && pwd)
wt=/tmp/cf_$id
rm -rf $wt
git -C /repo worktree add -f $wt HEAD -q >/dev/null 2>&1 || { echo "$id worktree-failed"; exit 2; }
cleanup() { git -C /repo worktree remove --force $wt >/dev/null 2>&1; }
( cd $wt && PYTHONPATH=$wt timeout 600 /venv/bin/python $src/demo.py >/dev/null 2>&1 ); d0=$?
if ! git -C $wt apply $src/patch.diff 2>/dev/null; then echo "$id patch-failed"; cleanup; exit 1; fi
( cd $wt && PYTHONPATH=$wt timeout 600 /venv/bin/python $src/demo.py >/dev/null 2>&1 ); d1=$?
t=$( cd $wt && PYTHONPATH=$wt timeout 1800 /venv/bin/python -m pytest -q -p no:cacheprovider --timeout=900 tests 2>&1 | tail -1 )
cleanup
ok=no
if [ $d0 -eq 0 ] && [ $d1 -ne 0 ] && echo "$t" | grep -q "82 passed" && ! echo "$t" | grep -q "failed"; then ok=yes; fi
echo "$id demo_clean=$d0 demo_changed=$d1 tests='$t' confirmed=$ok"
if [ $ok = yes ]; then
  mkdir -p $VERIF/seeded/$id
  cp $src/patch.diff $src/demo.py $VERIF/seeded/$id/
  python3 - "$src" "$id" "$VERIF" <<'PY'
import json, sys, os, re
src, sid, verif = sys.argv[1:4]
note = open(os.path.join(src, "note.txt")).read().strip() if os.path.exists(os.path.join(src, "note.txt")) else ""
files = sorted(set(re.findall(r"^\+\+\+ b/(\S+)", open(os.path.join(src, "patch.diff")).read(), re.M)))
json.dump({"property": sid.split("-")[0], "round": 2, "summary": note, "files": files,
           "confirmed_by_me": {"what_i_ran": "tools/confirm_seeded.sh: scratch worktree of /repo HEAD, demo.py on the clean tree (exit 0), "
                               "git apply patch.diff, demo.py (exit != 0), full test-suite with the change (82 passed), worktree removed",
                               "demo_passes_without_change": True, "demo_fails_with_change": True,
                               "tests_pass_with_change": True, "kept": True}},
          open(os.path.join(verif, "seeded", sid, "meta.json"), "w"), indent=1)
PY
fi
