#!/usr/bin/env python3
"""Refreshes the generated paragraphs of DESIGN.md section 0 (between <!-- X --> markers) from
ledger.json and seeded/results.txt."""
import collections
import json
import os
import re

HERE = os.path.dirname(os.path.dirname(os.path.abspath(__file__)))


def numbers():
    d = json.load(open(os.path.join(HERE, "ledger.json")))
    ob = d["obligations"]
    total = sum(v["count"] for v in ob.values())
    byfn = collections.Counter()
    for k, v in ob.items():
        byfn[k.split("#")[0]] += v["count"]
    groups = [
        ("schedule.py (constructor, finalize, observers, wrapper, actions)", "schedule."),
        ("SingleMemory / SingleDisk / None", "basic_schedules."),
        ("n_advance, GW recurrence, Multistage", "multistage."),
        ("TwoLevel", "twolevel_binomial."),
        ("Mixed planner, cache, tabulation, iterator (both paths)", "mixed."),
        ("Revolve-family iterator, _convert_action, constructor, observers", "hrevolve."),
        ("sequence tables and builders (argmin, Table, OPT0, revolve, OPTINF, disk_revolve, PERIOD, "
         "periodic_disk_revolve, get_hopt_table, hrevolve_aux/recurse, hrevolve, revolver_parameters)", "seq."),
        ("lemmas (CNT induction, arithmetic, finalize-before-first-action)", ("lemma.", "ghost.lemmas")),
        ("AST frame obligations", "frame."),
    ]
    rows = []
    for title, pre in groups:
        pre = pre if isinstance(pre, tuple) else (pre,)
        n = sum(c for f, c in byfn.items() if f.startswith(pre))
        nf = sum(1 for f in byfn if f.startswith(pre))
        rows.append("| %s | %d | %d |" % (title, nf, n))
    reach = d.get("reachable_sites", [])
    out = ["%d verification conditions, %d distinct obligation names, all discharged on the reference tree "
           "(`ledger.json`); %d cover sites not refuted there." % (total, len(ob), len(reach)), "",
           "| group | functions / lemma families | VCs |", "|---|---|---|"] + rows
    return "\n".join(out)


def seeded():
    p = os.path.join(HERE, "seeded", "results.txt")
    if not os.path.exists(p):
        return "(no run recorded)"
    rows, vc, bounded_only, bad = [], 0, 0, []
    for line in open(p):
        m = re.match(r"(C\d+-\d+) exit=(\d+) violations_lines=(\d+) ?(.*)", line.strip())
        if not m:
            continue
        sid, rc, nv, first = m.group(1), int(m.group(2)), int(m.group(3)), m.group(4)
        by_vc = "FAILED-OBLIGATION" in first
        what = first.split("|")[0]
        what = re.sub(r"^(FAILED-OBLIGATION|BOUNDED-CLAUSE-FAILED) ", "", what)
        what = what.split(" at /")[0].split(" at checkpoint_schedules")[0].split(" (")[0][:110]
        if rc != 1 or nv == 0:
            bad.append(sid)
        reported = (rc == 1 and nv > 0)
        vc += (by_vc and reported)
        bounded_only += ((not by_vc) and reported)
        rows.append("| %s | %s | %s | `%s` |" % (sid, "VIOLATION" if rc == 1 and nv else "not reported (exit=%d)" % rc,
                                                ("VC" if by_vc else "bounded") if rc == 1 and nv else "-", what or "-"))
    head = ("Last full run (`seeded/results.txt`): %d changes, %d reported as VIOLATION by the target "
            "property's quick check%s; %d of them by a failed VC obligation (named below), %d only by the "
            "bounded layer (changes inside functions not under contract: `allocate_snapshots`, the H-Revolve "
            "sequence builders, module-level caches, or global properties of a stream).\n\n"
            "| change | result | first layer | first failing obligation / clause |\n|---|---|---|---|\n" % (
                len(rows), len(rows) - len(bad), (" (not: %s)" % bad) if bad else "", vc, bounded_only))
    return head + "\n".join(rows)


def main():
    p = os.path.join(HERE, "DESIGN.md")
    s = open(p).read()
    for tag, fn in (("NUMBERS", numbers), ("SEEDED", seeded)):
        body = "<!-- %s -->\n%s\n<!-- /%s -->" % (tag, fn(), tag)
        if "@@%s@@" % tag in s:
            s = s.replace("@@%s@@" % tag, body)
        else:
            s = re.sub(r"<!-- %s -->.*?<!-- /%s -->" % (tag, tag), lambda m: body, s, flags=re.S)
    open(p, "w").write(s)


if __name__ == "__main__":
    main()
