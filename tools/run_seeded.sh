#!/bin/bash
# Runs the target property's quick check against every kept seeded change, each in its own scratch
# worktree of /repo (removed afterwards).  Usage: tools/run_seeded.sh [ids...]   -> seeded/results.txt
cd "$(dirname "$0")/.."
VERIF=$(pwd)
ids="$@"
[ -z "$ids" ] && ids=$(ls seeded | grep -E '^C[0-9]+-[0-9]+$')
mkdir -p .work
for id in $ids; do
  prop=${id%%-*}
  wt=/tmp/sw_$id
  rm -rf $wt
  git -C /repo worktree add -f $wt HEAD -q >/dev/null 2>&1
  if ! git -C $wt apply $VERIF/seeded/$id/patch.diff 2>/dev/null; then echo "$id patch-failed"; git -C /repo worktree remove --force $wt; continue; fi
  out=$(VERIF_REPO=$wt ./check $prop --tier quick 2>&1)
  rc=$?
  nv=$(echo "$out" | grep -c '^VIOLATION')
  first=$(echo "$out" | grep -E '^(FAILED-OBLIGATION|BOUNDED-CLAUSE-FAILED)' | head -2 | cut -c1-200 | tr '\n' '|')
  echo "$id exit=$rc violations_lines=$nv $first"
  echo "$out" > .work/seeded_$id.log
  git -C /repo worktree remove --force $wt >/dev/null 2>&1
done
