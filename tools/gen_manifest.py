#!/usr/bin/env python3
"""Regenerates /verif/MANIFEST.json from the table below (kept in one place so the level
claims follow what the checks actually discharge)."""
import json
import os

HERE = os.path.dirname(os.path.dirname(os.path.abspath(__file__)))

TECH = ("contract-based deductive verification: sidecar contracts (pre/post, loop invariants, ghost "
        "executor, frames, lemmas) on the real functions; VCs generated from /repo's AST by pyvc on "
        "every run and discharged by z3 (cvc5 on unknowns); bounded run-time contract checking on "
        "finite boxes as labelled stand-in for functions outside the VC engine's reach")

NOTE = ("Trusted: pyvc VC generator + sidecar contracts/ghost executor + z3/cvc5 + CPython ast + the "
        "induction principle for the spec-function lemmas; Python ints are mathematical (exact); "
        "assumed contract of allocate_snapshots (singledispatch closures) and CPython's generator "
        "protocol; the shape of the operation lists handed to the Revolve-family iterator (validated on "
        "every schedule of the boxes; an obligation at every construction site of revolve/disk_revolve/"
        "periodic_disk_revolve). pyvc is itself checked on every run by a CPython cross-check (concrete "
        "execution of the iterators by the engine vs the real streams) and a model check of the spec-"
        "function axioms, and on every thorough run by a 44-mutant self-test. "
        "Bounded clauses hold only inside their stated box and are never counted as discharged; every "
        "exhaustive box is run in ascending and descending parameter order and once more with a second "
        "live schedule of the same class advanced in lockstep (no dependence on construction history or on "
        "other instances), and a stream the reference executor cannot carry out also counts against the "
        "optimum properties C05/C06/C07/C13/C19.")

VC_CLASSES = ("SingleMemory/SingleDisk/None, Multistage, TwoLevel (symbolic period) and Mixed iterators")
REV = ("For the Revolve family (Revolve, DiskRevolve, PeriodicDiskRevolve, HRevolve) the stream is a "
       "conversion of a recursively built operation list: the iterator and _convert_action are verified "
       "for every list of well-shaped operations on guard-passing paths, which discharges the local "
       "clauses at every yield (forward/reverse start, one step of dependencies to WORK, Move source "
       "present, counters, is_exhausted, empty store at EndReverse, well-formed actions); the clauses "
       "that need the global structure of the list are decided by the bounded layer (reference executor "
       "on the real classes, all tuples of the box, 16 cost vectors).")

P = {}


def add(pid, cat, text, ref="8"):
    P[pid] = (cat, text, NOTE, ref)


add("C01", "other",
    "Every emit-precondition of the section-5 reference executor tagged C01 (forward starts at the "
    "forward state, checkpoint present in the named storage and covering the steps to recompute, "
    "dependencies in WORK at every Reverse, no overwrite) is a discharged VC at every yield of the "
    + VC_CLASSES + ", for symbolic step count / finalisation point, unit counts, label tuple, period, "
    "trajectory and every adjoint pass (loop invariants, no bound); every `raise` of those iterators is "
    "proved unreachable (Mixed: safety on guard-passing paths). " + REV)
add("C02", "other",
    "Ghost adjoint counter/phase: Reverse starts at the adjoint position and covers it contiguously, "
    "EndForward exactly once with the forward complete, no Copy/Move/Reverse before it, EndReverse only "
    "with all steps reversed, nothing after the final action - discharged VCs at every yield of the "
    + VC_CLASSES + ". " + REV)
add("C03", "other",
    "Budget obligations after every write yield: Multistage RAM/DISK prefix counts <= declared counts "
    "(CNT spec function with inductively proved lemmas, __init__ contract incl. the assumed "
    "allocate_snapshots contract), Mixed <= snapshots in the chosen storage only, TwoLevel <= "
    "binomial_snapshots extra + one disk checkpoint per started period, single-storage schedules "
    "nothing outside their storage; 'never both kinds' at every Forward. " + REV)
add("C04", "other",
    "store == empty at the final EndReverse (SingleDisk move, Multistage, Mixed) and store == store at "
    "EndForward at every EndReverse of the multi-pass classes (SingleMemory, SingleDisk copy, TwoLevel: "
    "periodic checkpoints only ever copied) are discharged VCs from the coupling invariants. " + REV)
add("C05", "other",
    "Proved (VC): the Multistage stream takes exactly WADV(n, s, trajectory) forward steps - the "
    "recurrence T(1,u)=1, T(m,u)=j+T(m-j,u-1)+T(j,u) induced by the *real* n_advance (j=n_advance(m,u)) - for "
    "all n, all unit counts and splits, both trajectories (ghost potential over the checkpoint stack at "
    "every loop head); optimal_extra_steps / optimal_steps_binomial equal the Griewank-Walther recurrence "
    "GWX (definitional axioms) for all n, s; n_advance range/endpoint contract with termination; argmin "
    "returns the last minimiser; get_opt_0_table == memory-only recurrence OPT0, revolve() makespan == "
    "OPT0(cm,l)+(l+1)*uf, and the Revolve stream costs exactly the sum of the operation costs (all l, "
    "cm>=1, all costs). Bounded: WADV(n,s) == n + GWX(n,s) (T_adv on the real n_advance, all n<=400/3000: "
    "the binomial-coefficient identity behind n_advance's closed form is not an SMT-provable induction); "
    "OPT0 in step units == GWX; the recurrence itself validated against a Dijkstra search over all "
    "executable action sequences for n<=6/8; stream steps on the box.")
add("C06", "other",
    "Proved (VC): mixed_step_memoization's cost equals the Maddison recurrence MIXOPT with the "
    "documented tie-breaking (well-founded recursion on n), optimal_steps_mixed == MIXOPT, the Mixed "
    "constructor raises exactly outside the documented domain, and the chosen storage flows only into "
    "the storage arguments of emitted actions (AST data-flow obligation: step counts cannot depend on "
    "it). Stream steps == MIXOPT: bounded (all n<=60/200, all s, both storages); MIXOPT validated by "
    "Dijkstra search over executable sequences for n<=6/8.")
add("C07", "other",
    "Proved (VC), for all l, unit counts >= 1 and all real costs: get_opt_0_table == OPT0 recurrence, "
    "get_opt_inf_table == Disk-Revolve recurrence OPTINF, get_hopt_table == the two-level H-Revolve "
    "recurrences HP0/HP1/H1 entry by entry (never-filled cells stay inf and are never used in "
    "arithmetic); revolve() makespan == OPT0+(l+1)uf, disk_revolve() makespan == OPTINF+(l+1)uf (so "
    "cost(DiskRevolve) <= cost(Revolve) at the sequence level by the recurrence), hrevolve_aux / "
    "hrevolve_recurse / hrevolve() makespan == HP1 / H1 + (l+1)uf for free RAM transfers and "
    "non-negative disk costs, periodic_disk_revolve() makespan == periodic recurrence PDRC; argmin, "
    "revolver_parameters, Table class; cost-role data-flow obligations: every cost-carrying argument "
    "(uf/ub/wvect/rvect...) reaches a parameter of the same role at every call site of the package (the "
    "obligation the pinned tree's uf/ub swap fails). Every spec-function axiom is model-checked on every "
    "run against the exact-arithmetic definitions of contracts/specs.py (bounded grid). Assumed, validated "
    "at run time: the sequence-algebra accessors (Operation.cost, Sequence.insert/insert_sequence/shift/"
    "remove_useless_wm). Not under contract: the link stream cost == makespan through the iterator and "
    "termination of the recursive builders; bounded - stream cost vs exact-rational recurrences for "
    "n<=16, 16 cost vectors incl. uf!=ub, wd!=rd, zeros; recurrences validated by Dijkstra search for n<=4/5.")
add("C08", "other",
    "schedule.n == executor forward position, schedule.r == executor adjoint counter (reset at "
    "EndReverse iff another pass is permitted), max_n None or the true step count: discharged VCs at "
    "every yield of the " + VC_CLASSES + "; observer properties n/r/max_n return the fields. " + REV)
add("C09", "other",
    "Pass structure from the loop contracts (pass-loop head invariant re-established => further passes "
    "are executable repeats; single-pass classes end with the generator), is_exhausted evaluated "
    "through its contract at every yield (False while actions remain, True at the final action), "
    "is_running <=> generator created and the wrapper returns the same generator on every call: "
    "discharged VCs. " + REV + " StopIteration persistence is CPython's generator protocol (assumed).")
add("C10", "proof",
    "finalize() is straight-line: its complete accept/reject table (n<1 ValueError; max_n unknown: "
    "accept iff schedule.n >= n, then n = max_n = n; max_n known: no-op iff n == max_n == schedule.n; "
    "everything else RuntimeError; a rejected call assigns nothing) is discharged for all integers; "
    "lemma: every finalize on a fresh object is rejected; at every Forward yield of the online classes "
    "schedule.n equals the n1 the client was told (so 'accepted iff told to advance at least to n') and "
    "the finalisation at the true end is accepted, after which the only continuation is EndForward. "
    "The bounded layer additionally compares 3000/50000 seeded next()/finalize(k) histories with the table.")
add("C11", "other",
    "At every yield of the VC classes that names RAM or DISK the obligation uses_storage_type(storage) "
    "is True is discharged (Multistage via the CNT 'positive' lemma); every uses_storage_type is proved "
    "total on all four members (Revolve family: exact table incl. snapshots_on_disk None). That the "
    "Revolve-family streams touch DISK only when the table says so is bounded.")
add("C12", "other",
    "Loads only with empty WORK, adjoint dependencies written to WORK only for the step before the "
    "adjoint position, no Forward beyond the adjoint position, at most one step of dependencies (all "
    "kept for SingleMemory): discharged VCs at every yield of the " + VC_CLASSES + ". " + REV)
add("C13", "other",
    "Proved (VC, symbolic period, every pass): the forward sweep emits exactly Forward(k*period,"
    "(k+1)*period, restart checkpoint to DISK); extra checkpoints go only to the binomial storage, at "
    "most binomial_snapshots of them; periodic checkpoints are only copied; every period block of length "
    "L is recomputed with exactly WADV(L, binomial_snapshots+1, trajectory) forward steps, the recurrence "
    "induced by the real n_advance (per-block ghost potential, asserted at the Reverse that completes the "
    "block). Bounded: WADV == the binomial optimum (T_adv on the real n_advance for n<=400/3000), and the "
    "box period 1..9, b<=4, both storages/trajectories, N<=40/120, 3 passes.")
add("C14", "other",
    "Proved (VC): the unit total depends on ram+disk only, at most the declared number of units is "
    "labelled RAM (CNT lemmas), every stack position keeps the storage self._storage[position] at every "
    "write and load, and storage labels flow only into the storage arguments of emitted actions (AST "
    "data-flow obligation) - so the stream is the same for every split up to labels. Minimal DISK "
    "traffic (allocate_snapshots, singledispatch closures): bounded (all n<=24/60, all splits of "
    "s<=12, both trajectories).")
add("C15", "other",
    "Proved: effect scan over every function of the package (no store to a location that outlives the "
    "call except the justified ones: the memo dict of cache_step, closures' own enclosing locals, the "
    "wrapper installation) and no mutable module-level container; cache_step.wrapped_fn returns "
    "fn(n, min(s,n-1)) whatever the cache holds and keeps the cache invariant (F17); observers assign "
    "nothing; one generator per object. Bounded: seeded interleaved histories vs a fresh interpreter.")
add("C16", "other",
    "Proved (VC): every cell of mixed_steps_tabulation satisfies the planner-step specification CELLOK "
    "(kind, length, cost == Maddison recurrence with the documented tie-breaking; no index error, no "
    "int64 overflow for n<2^31), mixed_step_memoization satisfies the same predicate, the predicate "
    "determines the triple (uniqueness lemma), and the Mixed iterator is verified on both code paths "
    "(memoised and tabulated). Assumed: numba compiles the tabulation faithfully (not installed); "
    "bounded: cell-by-cell and stream equality with the tabulated path forced (n<=120/400).")
add("C17", "other",
    "Constructor contracts (raise exactly outside the documented domain) and totality of the "
    "iterators of the VC classes (every raise unreachable, implicit exceptions excluded, loops "
    "terminate by decreases clauses) are discharged VCs; Mixed totality and the Revolve family are "
    "bounded on the box n in 0..7/12, units 0..n+2, all storages, period 0..4.")
add("C18", "other",
    "Well-formedness of every emitted action at every yield of the VC classes, __eq__ (never raises, "
    "equal iff same kind and args), Forward/Reverse __len__/__contains__/__iter__ and every accessor "
    "(n0, n1, write_ics, write_adj_deps, storage, clear_adj_deps, n, from_storage, to_storage): discharged "
    "VCs; identity comparison of values excluded package-wide (AST obligation). Bounded (strings and "
    "yield-from are outside the encoding): repr/eval round trip on random actions incl. integers around and "
    "beyond sys.maxsize and on every action emitted in the boxes - both planner paths of Mixed (this is "
    "what found D10: numpy integers on the tabulated path, repaired) - iteration order, Revolve-family "
    "actions.")
add("C19", "other",
    "Proved (VC): mxrr_close_formula returns int(beta(cm, t*)) with t* the first t with "
    "beta(cm+1,t) > (wd+rd)/uf (beta uninterpreted) and has no dependence on n; each segment is built "
    "by revolve(), proved memory-only optimal (makespan); periodic_disk_revolve() builds a sequence "
    "whose makespan equals the periodic-cost recurrence PDRC with exactly that period (disk write at "
    "every period boundary, one disk read per segment, last segment from get_opt_1d_table/OPT0) for "
    "all l, cm>=1 and all positive costs; cost-role data-flow obligations at the call sites. Positions of DISK writes/loads in the stream, "
    "read-once, beta == math.comb: bounded (all n<=60/200, RAM units 1..4, 16 cost vectors).")


def main():
    checks = []
    for pid in sorted(P):
        cat, text, note, ref = P[pid]
        checks.append({
            "property_id": pid,
            "quick_cmd": "./check %s --tier quick" % pid,
            "thorough_cmd": "./check %s --tier thorough" % pid,
            "evidence_file": "evidence/%s.json" % pid,
            "replay_cmd_template": "./check replay {path}",
            "engine": "pyvc+rtc",
            "level_claimed": {"category": cat, "text": text, "design_ref": "DESIGN.md section " + ref},
            "level_note": note,
            "technique": TECH,
        })
    m = {
        "version": 1,
        "setup_cmd": "true",
        "hooks": {"guard": "CHECKPOINT_SCHEDULES_VERIF",
                  "enable": "none needed: contracts are sidecar files under /verif/contracts; the "
                            "repository is read as source text (pyvc) and imported unmodified (rtc)",
                  "baseline_off_cmd": "cd /repo && /venv/bin/python -m pytest -ra -q -p no:cacheprovider "
                                      "--timeout=900 --continue-on-collection-errors",
                  "source_commits": [], "add_only": True},
        "engines": [
            {"name": "pyvc", "path": "pyvc/", "serves_properties": sorted(P),
             "kind_free_text": "verification-condition generator over the Python AST of /repo + z3/cvc5"},
            {"name": "rtc", "path": "rtc/", "serves_properties": sorted(P),
             "kind_free_text": "run-time contract monitor on finite boxes (bounded stand-in)"}],
        "checks": checks,
        "not_applicable": [],
        "notes": "See DESIGN.md. Exit codes: 0 held, 1 violation, 2 undecided, 3 checker broken. "
                 "./check selftest (mutation self-test) and python3-vt -m pyvc.crosscheck (CPython "
                 "cross-check) validate the VC engine itself.",
    }
    with open(os.path.join(HERE, "MANIFEST.json"), "w") as f:
        json.dump(m, f, indent=1)


if __name__ == "__main__":
    main()
