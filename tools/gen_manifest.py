#!/usr/bin/env python3
"""Regenerates /verif/MANIFEST.json from the table below (kept in one place so the
level claims follow what the checks actually discharge)."""
import json, os
HERE = os.path.dirname(os.path.dirname(os.path.abspath(__file__)))

TECH = ("contract-based deductive verification: sidecar contracts on the real functions, VCs "
        "generated from /repo's AST by pyvc and discharged by z3/cvc5; bounded run-time "
        "contract checking as labelled stand-in")

# property -> (category, text, note, design_ref)
P = {}
def add(pid, cat, text, note, ref="8"):
    P[pid] = (cat, text, note, ref)

NOTE = ("Trusted: pyvc VC generator + sidecar contracts + z3/cvc5 + CPython ast; Python ints "
        "mathematical (exact). Bounded clauses hold only inside their stated box.")
for pid in ["C%02d" % i for i in range(1, 20)]:
    add(pid, "other",
        "Bounded stand-in only at this commit: run-time checking of the section-5 reference "
        "executor / spec-function contracts on the real classes over the finite box stated in the "
        "evidence; the VC layer for this property is being built (see DESIGN.md section 8).",
        NOTE)

def main():
    checks = []
    for pid in sorted(P):
        cat, text, note, ref = P[pid]
        checks.append({
            "property_id": pid,
            "quick_cmd": "./check %s --tier quick" % pid,
            "thorough_cmd": "./check %s --tier thorough" % pid,
            "evidence_file": "evidence/%s.json" % pid,
            "replay_cmd_template": "./check replay {path}",
            "engine": "pyvc+rtc",
            "level_claimed": {"category": cat, "text": text, "design_ref": "DESIGN.md section " + ref},
            "level_note": note,
            "technique": TECH,
        })
    m = {
        "version": 1,
        "setup_cmd": "true",
        "hooks": {"guard": "CHECKPOINT_SCHEDULES_VERIF",
                  "enable": "none needed: contracts are sidecar files under /verif/contracts; the "
                            "repository is read as source text (pyvc) and imported unmodified (rtc)",
                  "baseline_off_cmd": "cd /repo && /venv/bin/python -m pytest -ra -q -p no:cacheprovider --timeout=900 --continue-on-collection-errors",
                  "source_commits": [], "add_only": True},
        "engines": [
            {"name": "pyvc", "path": "pyvc/", "serves_properties": sorted(P),
             "kind_free_text": "verification-condition generator over the Python AST of /repo + z3/cvc5"},
            {"name": "rtc", "path": "rtc/", "serves_properties": sorted(P),
             "kind_free_text": "run-time contract monitor on finite boxes (bounded stand-in)"}],
        "checks": checks,
        "not_applicable": [],
        "notes": "See DESIGN.md. Exit codes: 0 held, 1 violation, 2 undecided, 3 checker broken.",
    }
    with open(os.path.join(HERE, "MANIFEST.json"), "w") as f:
        json.dump(m, f, indent=1)

if __name__ == "__main__":
    main()
