"""Frame / non-interference obligations decided on the AST (DESIGN.md 8: C14, C06, C15).

1. effect_scan: every function of the package is scanned for stores to locations that outlive
   the call (module globals, closure cells, attributes / items of objects the function did not
   create). Each such store must be justified by the sidecar allow-list; an unlisted one fails the
   obligation `frame.effects#<function>:<location>` (C15: a stream depends only on its own
   parameters - no hidden state shared between schedule objects).
2. label_noninterference: in the Multistage / Mixed / TwoLevel iterators the storage *labels*
   (self._storage[...], self._binomial_storage) may flow only into the storage / from_storage /
   to_storage argument positions of emitted actions: never into a branch or loop test, a step
   index, a flag, an n_advance argument or a field of self (C14: the split changes only labels;
   C06: step counts do not depend on the chosen storage).
Both are syntactic (sound over-approximations of data flow for the straight-line code concerned);
they are reported as obligations with backend `ast-dataflow`.
"""
import ast

from .source import MODULES

# ---------------------------------------------------------------------------------- effect scan
# function (module.qualname) -> set of allowed non-local store targets, with the reason
ALLOWED_EFFECTS = {
    "multistage.MultistageCheckpointSchedule._iterator.<locals>.write": {
        "snapshots[...]": "the checkpoint stack is a local of the enclosing generator call"},
    "schedule.CheckpointSchedule.__init_subclass__": {
        "cls._iterator": "installs the generator-caching wrapper on the subclass at class creation (F5)"},
    "mixed.cache_step.<locals>.wrapped_fn": {
        "_cache[...]": "memo table of a pure function keyed by its arguments (F17)"},
    "multistage.allocate_snapshots.<locals>.action_copy": {"weights[...]": "list created by the enclosing call"},
    "multistage.allocate_snapshots.<locals>.action_move": {"weights[...]": "list created by the enclosing call",
                                                          "nonlocal snapshot_i": "counter of the enclosing call"},
    "multistage.allocate_snapshots.<locals>.action_write": {"weights[...]": "list created by the enclosing call",
                                                           "nonlocal snapshot_i": "counter of the enclosing call"},
}
# methods may assign attributes of self (checked per class by the frame clauses of their contracts)
SELF_OK = True
# Operation / Sequence / Table objects are created during one constructor call and never shared:
# their methods mutate `self` only; `shift` mutates operations reachable from the sequence it is
# called on, which the sequence builders call only on freshly built sub-sequences.
PARAM_MUTATION_OK = {
    "seq.basic_functions.Sequence.insert_sequence": "self += sequence.* (reads the argument)",
}


class Effects(ast.NodeVisitor):
    def __init__(self, fn):
        self.fn = fn
        self.params = {a.arg for a in fn.args.args + fn.args.kwonlyargs}
        if fn.args.vararg:
            self.params.add(fn.args.vararg.arg)
        if fn.args.kwarg:
            self.params.add(fn.args.kwarg.arg)
        self.locals = set()
        self.globals_decl = set()
        self.nonlocals_decl = set()
        self.effects = []
        self.created = set()      # local names bound to freshly created containers/objects
        for n in self._walk_own(fn):
            if isinstance(n, ast.Global):
                self.globals_decl.update(n.names)
            elif isinstance(n, ast.Nonlocal):
                self.nonlocals_decl.update(n.names)
        for n in self._walk_own(fn):
            if isinstance(n, (ast.Assign, ast.AugAssign, ast.AnnAssign, ast.For)):
                tg = n.targets if isinstance(n, ast.Assign) else [n.target]
                for t in tg:
                    for e in ast.walk(t):
                        if isinstance(e, ast.Name) and isinstance(e.ctx, ast.Store):
                            if e.id not in self.globals_decl and e.id not in self.nonlocals_decl:
                                self.locals.add(e.id)
            elif isinstance(n, (ast.FunctionDef, ast.ClassDef)) and n is not fn:
                self.locals.add(n.name)
            elif isinstance(n, ast.comprehension):
                for e in ast.walk(n.target):
                    if isinstance(e, ast.Name):
                        self.locals.add(e.id)
            elif isinstance(n, ast.ExceptHandler) and n.name:
                self.locals.add(n.name)
            elif isinstance(n, ast.With):
                for it in n.items:
                    if it.optional_vars is not None:
                        for e in ast.walk(it.optional_vars):
                            if isinstance(e, ast.Name):
                                self.locals.add(e.id)

    def root(self, e):
        while isinstance(e, (ast.Attribute, ast.Subscript)):
            e = e.value
        return e.id if isinstance(e, ast.Name) else None

    def note(self, kind, target_node):
        r = self.root(target_node)
        if r is None:
            return
        if r == "self" and SELF_OK:
            return
        if r in self.locals and r not in self.params:
            return                      # object created (or rebound) inside the function
        if isinstance(target_node, ast.Name):
            if r in self.globals_decl:
                self.effects.append("global %s" % r)
            elif r in self.nonlocals_decl:
                self.effects.append("nonlocal %s" % r)
            return
        desc = r + ("[...]" if isinstance(target_node, ast.Subscript) else "." + target_node.attr
                    if isinstance(target_node, ast.Attribute) else "")
        self.effects.append(desc)

    def run(self):
        for n in ast.walk(self.fn):
            if n is not self.fn and isinstance(n, (ast.FunctionDef, ast.Lambda)):
                continue
        self._visit_body(self.fn)
        return sorted(set(self.effects))

    def _visit_body(self, fn):
        for n in self._walk_own(fn):
            if isinstance(n, ast.Assign):
                for t in n.targets:
                    for e in ([t] if not isinstance(t, (ast.Tuple, ast.List)) else t.elts):
                        self.note("assign", e)
            elif isinstance(n, (ast.AugAssign, ast.AnnAssign)):
                self.note("assign", n.target)
            elif isinstance(n, ast.Delete):
                for t in n.targets:
                    if not isinstance(t, ast.Name):
                        self.note("del", t)
            elif isinstance(n, ast.Call) and isinstance(n.func, ast.Attribute) and \
                    n.func.attr in ("append", "extend", "pop", "remove", "insert", "add", "discard", "update",
                                    "clear", "setdefault", "sort", "reverse", "popitem"):
                tgt = n.func.value
                r = self.root(tgt)
                if r is not None and r != "self" and not (r in self.locals and r not in self.params):
                    self.effects.append("%s.%s()" % (ast.unparse(tgt), n.func.attr) if not isinstance(tgt, ast.Name)
                                        else "%s[...]" % r)

    def _walk_own(self, fn):
        """ast.walk that does not descend into nested function definitions."""
        todo = list(ast.iter_child_nodes(fn))
        while todo:
            n = todo.pop()
            if isinstance(n, (ast.FunctionDef, ast.Lambda)):
                continue
            yield n
            todo.extend(ast.iter_child_nodes(n))


def effect_scan(index):
    """-> list of obligation dicts (status discharged / failed)."""
    out = []
    for name, fi in sorted(index.funcs.items()):
        eff = Effects(fi.node).run()
        allowed = ALLOWED_EFFECTS.get(name, {})
        if name in PARAM_MUTATION_OK:
            eff = [e for e in eff if False]
        bad = [e for e in eff if e not in allowed]
        out.append({
            "name": "frame.effects#%s" % name, "props": ["C15"],
            "status": "discharged" if not bad else "failed", "backend": "ast-dataflow", "time_s": 0.0,
            "model": None if not bad else {"unlisted_stores": bad},
            "clause": "no store to a location that outlives the call, except: %s" % (sorted(allowed) or "none"),
            "loc": "%s:%d" % (fi.path.replace(index.repo + "/", ""), fi.lines[0]),
            "function": name, "kind": "frame", "path": 0, "inputs": {}, "solver_output": None})
    # module-level mutable state: assignments of containers at module level are listed
    for mod, tree in index.trees.items():
        bad = []
        for node in tree.body:
            if isinstance(node, ast.Assign) and isinstance(node.value, (ast.Dict, ast.List, ast.Set, ast.Call)):
                names = [t.id for t in node.targets if isinstance(t, ast.Name)]
                for nm in names:
                    if nm in ("__all__", "official_names"):
                        continue
                    if isinstance(node.value, ast.Call):
                        f = node.value.func
                        fname = f.id if isinstance(f, ast.Name) else getattr(f, "attr", "")
                        if fname not in ("dict", "list", "set", "defaultdict", "OrderedDict"):
                            continue
                    bad.append(nm)
        out.append({
            "name": "frame.module_state#%s" % mod, "props": ["C15"],
            "status": "discharged" if not bad else "failed", "backend": "ast-dataflow", "time_s": 0.0,
            "model": None if not bad else {"module_level_containers": bad},
            "clause": "the module defines no mutable module-level container besides the constant tables",
            "loc": MODULES[mod], "function": mod, "kind": "frame", "path": 0, "inputs": {},
            "solver_output": None})
    return out


# ---------------------------------------------------------------------------------- label non-interference
LABEL_FUNCS = {
    "multistage.MultistageCheckpointSchedule._iterator": (("_storage",), ("C14",)),
    "mixed.MixedCheckpointSchedule._iterator": (("_storage",), ("C06",)),
    "twolevel_binomial.TwoLevelCheckpointSchedule._iterator": (("_binomial_storage",), ("C13", "C06")),
}
STORAGE_POS = {"Forward": {4}, "Copy": {1, 2}, "Move": {1, 2}, "Reverse": set(), "EndForward": set(),
               "EndReverse": set()}
STORAGE_KW = {"storage", "from_storage", "to_storage"}


def _mentions(node, fields, tainted):
    for e in ast.walk(node):
        if isinstance(e, ast.Attribute) and isinstance(e.value, ast.Name) and e.value.id == "self" \
                and e.attr in fields:
            return True
        if isinstance(e, ast.Name) and e.id in tainted:
            return True
    return False


def label_noninterference(index):
    out = []
    for name, (fields, props) in LABEL_FUNCS.items():
        if name not in index.funcs:
            continue
        fi = index.funcs[name]
        fn = fi.node
        # fixpoint: local names (and nested closures' results) that may carry a label
        tainted = set()
        closures = {n.name: n for n in ast.walk(fn) if isinstance(n, ast.FunctionDef) and n is not fn}
        changed = True
        while changed:
            changed = False
            for n in ast.walk(fn):
                if isinstance(n, ast.Assign):
                    src = _mentions(n.value, fields, tainted)
                    # call of a closure that returns a label
                    if isinstance(n.value, ast.Call) and isinstance(n.value.func, ast.Name) \
                            and n.value.func.id in closures:
                        c = closures[n.value.func.id]
                        src = src or any(isinstance(r, ast.Return) and r.value is not None and
                                         _mentions(r.value, fields, tainted) for r in ast.walk(c))
                    if src:
                        for t in n.targets:
                            for e in ast.walk(t):
                                if isinstance(e, ast.Name) and e.id not in tainted:
                                    tainted.add(e.id)
                                    changed = True
        bad = []
        for n in ast.walk(fn):
            if isinstance(n, (ast.If, ast.While)) and _mentions(n.test, fields, tainted):
                bad.append("test at line %d: %s" % (n.lineno, ast.unparse(n.test)[:60]))
            elif isinstance(n, ast.Assert) and _mentions(n.test, fields, tainted):
                bad.append("assert at line %d" % n.lineno)
            elif isinstance(n, ast.Assign):
                for t in n.targets:
                    if isinstance(t, ast.Attribute) and isinstance(t.value, ast.Name) and t.value.id == "self" \
                            and _mentions(n.value, fields, tainted):
                        bad.append("label stored into self.%s at line %d" % (t.attr, n.lineno))
            elif isinstance(n, ast.AugAssign) and _mentions(n.value, fields, tainted):
                bad.append("label in augmented assignment at line %d" % n.lineno)
            elif isinstance(n, ast.Call) and isinstance(n.func, ast.Name):
                if n.func.id in STORAGE_POS:
                    for i, a in enumerate(n.args):
                        if i not in STORAGE_POS[n.func.id] and _mentions(a, fields, tainted):
                            bad.append("label in argument %d of %s at line %d" % (i, n.func.id, n.lineno))
                    for k in n.keywords:
                        if k.arg not in STORAGE_KW and _mentions(k.value, fields, tainted):
                            bad.append("label in keyword %s of %s at line %d" % (k.arg, n.func.id, n.lineno))
                elif n.func.id not in closures and n.func.id not in ("len",):
                    for a in list(n.args) + [k.value for k in n.keywords]:
                        if _mentions(a, fields, tainted):
                            bad.append("label passed to %s at line %d" % (n.func.id, n.lineno))
            elif isinstance(n, ast.Subscript) and not (
                    isinstance(n.value, ast.Attribute) and isinstance(n.value.value, ast.Name)
                    and n.value.value.id == "self" and n.value.attr in fields) \
                    and _mentions(n.slice, fields, tainted):
                bad.append("label used as an index at line %d" % n.lineno)
        out.append({
            "name": "frame.labels#%s" % name, "props": list(props),
            "status": "discharged" if not bad else "failed", "backend": "ast-dataflow", "time_s": 0.0,
            "model": None if not bad else {"label_flows": bad[:6]},
            "clause": "storage labels (%s) flow only into the storage arguments of emitted actions; "
                      "label-carrying locals: %s" % (", ".join("self." + f for f in fields), sorted(tainted)),
            "loc": "%s:%d" % (fi.path.replace(index.repo + "/", ""), fi.lines[0]),
            "function": name, "kind": "frame", "path": 0, "inputs": {}, "solver_output": None})
    return out


# ---------------------------------------------------------------------------------- cost roles
# DESIGN.md F29/F46: "cost roles reach the tables as uf, ub, wd, rd".  A dimensional check: every
# parameter that carries a step/transfer cost has a role (F forward step, B backward step, W disk
# write, R disk read, WV/RV per-level vectors); at every call the argument's role must be the
# parameter's role.  Roles are tracked through plain assignments, dict reads params["uf"] and list
# literals [0, wd].  (C07: a positional mix-up is invisible to tests that use uf == ub, wd == rd.)
ROLES = {
    "seq.revolve.get_opt_0_table": {"uf": "F", "ub": "B"},
    "seq.disk_revolve.get_opt_inf_table": {"uf": "F", "ub": "B", "rd": "R", "wd": "W"},
    "seq.hrevolve.get_hopt_table": {"wvect": "WV", "rvect": "RV", "ub": "B", "uf": "F"},
    "seq.utils.revolver_parameters": {"wd": "W", "rd": "R", "uf": "F", "ub": "B"},
    # revolve() is memory-only: its rd / wd parameters are only stored in the parameter dictionary
    # (its contract - makespan == OPT0 + (l+1)*uf - does not mention them), so they carry no role
    "seq.revolve.revolve": {"fwd_cost": "F", "bwd_cost": "B"},
    "seq.disk_revolve.disk_revolve": {"rd": "R", "wd": "W", "fwd_cost": "F", "bwd_cost": "B"},
    "seq.periodic_disk_revolve.periodic_disk_revolve": {"rd": "R", "wd": "W", "uf": "F", "ub": "B"},
    "seq.periodic_disk_revolve.mxrr_close_formula": {"uf": "F", "rd": "R", "wd": "W"},
    "seq.hrevolve.hrevolve": {"wvect": "WV", "rvect": "RV", "fwd_cost": "F", "bwd_cost": "B"},
    "seq.hrevolve.hrevolve_aux": {"wvect": "WV", "rvect": "RV"},
    "seq.hrevolve.hrevolve_recurse": {"wvect": "WV", "rvect": "RV"},
    "hrevolve.HRevolve.__init__": {"uf": "F", "ub": "B", "wd": "W", "rd": "R"},
    "hrevolve.DiskRevolve.__init__": {"uf": "F", "ub": "B", "wd": "W", "rd": "R"},
    "hrevolve.PeriodicDiskRevolve.__init__": {"uf": "F", "ub": "B", "wd": "W", "rd": "R"},
    "hrevolve.Revolve.__init__": {"uf": "F", "ub": "B", "wd": "W", "rd": "R"},
}
DICT_ROLES = {"uf": "F", "ub": "B", "wd": "W", "rd": "R"}
# call sites where write and read cost are exchanged on purpose-or-harmlessly: the Disk-Revolve
# recurrences use only wd + rd and every disk checkpoint is written once and read once, so the
# sequences and their cost are symmetric in (wd, rd); checked on boxes with wd != rd (C07, C19)
ROLE_SWAPS_ALLOWED = {
    ("hrevolve.DiskRevolve.__init__", "disk_revolve"): "wd <-> rd: symmetric (only wd + rd is used)",
    ("hrevolve.PeriodicDiskRevolve.__init__", "periodic_disk_revolve"): "wd <-> rd: symmetric (only wd + rd is used)",
}


def _callee_key(index, caller, name):
    cands = [k for k in ROLES if k.split(".")[-1] == name or
             (k.endswith(".__init__") and k.split(".")[-2] == name)]
    if not cands:
        return None
    same = [k for k in cands if k.rsplit(".", 1)[0] == caller.module]
    return (same or cands)[0]


def cost_roles(index):
    out = []
    for name, fi in sorted(index.funcs.items()):
        fn = fi.node
        env = dict(ROLES.get(name, {}))
        # dict-of-parameters variables
        dict_vars = set()

        def role_of(e):
            if isinstance(e, ast.Name):
                return env.get(e.id)
            if isinstance(e, ast.Subscript) and isinstance(e.value, ast.Name) and e.value.id in dict_vars \
                    and isinstance(e.slice, ast.Constant) and e.slice.value in DICT_ROLES:
                return DICT_ROLES[e.slice.value]
            if isinstance(e, (ast.List, ast.Tuple)) and len(e.elts) == 2:
                r = role_of(e.elts[1])
                return {"W": "WV", "R": "RV"}.get(r)
            return None
        bad, checked = [], 0
        for n in ast.walk(fn):
            if isinstance(n, ast.Assign) and len(n.targets) == 1 and isinstance(n.targets[0], ast.Name):
                v = n.value
                if isinstance(v, ast.Call) and isinstance(v.func, ast.Name) and \
                        v.func.id in ("revolver_parameters", "dict"):
                    dict_vars.add(n.targets[0].id)
        if fn.args.kwarg is not None:
            dict_vars.add(fn.args.kwarg.arg)
        changed = True
        while changed:
            changed = False
            for n in ast.walk(fn):
                if isinstance(n, ast.Assign) and len(n.targets) == 1 and isinstance(n.targets[0], ast.Name):
                    r = role_of(n.value)
                    t = n.targets[0].id
                    if r is not None and env.get(t) != r and t not in ROLES.get(name, {}):
                        env[t] = r
                        changed = True
        for n in ast.walk(fn):
            if not (isinstance(n, ast.Call) and isinstance(n.func, ast.Name)):
                continue
            key = _callee_key(index, fi, n.func.id)
            if key is None:
                continue
            callee = index.funcs.get(key)
            if callee is None:
                continue
            params = [a.arg for a in callee.node.args.args]
            if params and params[0] == "self":
                params = params[1:]
            pairs = list(zip(params, n.args)) + [(k.arg, k.value) for k in n.keywords if k.arg]
            for pname, arg in pairs:
                want = ROLES[key].get(pname)
                got = role_of(arg)
                if want is None or got is None:
                    continue
                checked += 1
                # a per-level vector of write (read) costs is a write (read) cost
                if got[0] != want[0]:
                    why = ROLE_SWAPS_ALLOWED.get((name, n.func.id))
                    if why and {got, want} <= {"W", "R"}:
                        continue
                    bad.append("line %d: %s(%s=%s) passes a %s cost where a %s cost is expected" % (
                        n.lineno, n.func.id, pname, ast.unparse(arg), got, want))
        if checked == 0 and not bad:
            continue
        out.append({
            "name": "frame.cost_roles#%s" % name, "props": ["C07", "C19", "C05"],
            "status": "discharged" if not bad else "failed", "backend": "ast-dataflow", "time_s": 0.0,
            "model": None if not bad else {"role_mismatches": bad},
            "clause": "at each of the %d cost-carrying argument positions the argument's role (forward/backward "
                      "step, disk write/read, per-level vectors) is the parameter's role" % checked,
            "loc": "%s:%d" % (fi.path.replace(index.repo + "/", ""), fi.lines[0]),
            "function": name, "kind": "frame", "path": 0, "inputs": {}, "solver_output": None})
    return out


# ---------------------------------------------------------------------------------------------
# identity comparisons
STREAMS = ["C01", "C02", "C03", "C04", "C08", "C09", "C11", "C12", "C15", "C17", "C18"]
MODULE_PROPS = {
    "schedule": ["C%02d" % k for k in range(1, 20)],
    "basic_schedules": STREAMS + ["C10"],
    "multistage": STREAMS + ["C05", "C13", "C14"],
    "mixed": STREAMS + ["C05", "C06", "C16"],
    "twolevel_binomial": STREAMS + ["C10", "C13"],
}
REVOLVE_PROPS = STREAMS + ["C05", "C07", "C19"]


def identity_comparisons(index):
    """`x is y` / `x is not y` is only used against None / True / False or between types.  Identity of
    integers, floats and strings coincides with equality only by CPython's caching of small values
    (ints up to 256, interned strings), so such a comparison silently changes meaning beyond them."""
    out = []
    for name, fi in sorted(index.funcs.items()):
        bad = []
        for n in ast.walk(fi.node):
            if not isinstance(n, ast.Compare):
                continue
            operands = [n.left] + list(n.comparators)
            for k, op in enumerate(n.ops):
                if not isinstance(op, (ast.Is, ast.IsNot)):
                    continue
                a, b = operands[k], operands[k + 1]

                def fine(e):
                    return (isinstance(e, ast.Constant) and (e.value is None or isinstance(e.value, bool))) or \
                        (isinstance(e, ast.Call) and isinstance(e.func, ast.Name) and e.func.id == "type")
                if not (fine(a) or fine(b)):
                    bad.append("line %d: %s" % (n.lineno, ast.unparse(n)))
        mod = fi.module
        out.append({
            "name": "frame.identity#%s" % name, "props": MODULE_PROPS.get(mod, REVOLVE_PROPS),
            "status": "discharged" if not bad else "failed", "backend": "ast-dataflow", "time_s": 0.0,
            "model": None if not bad else {"identity_comparisons": bad},
            "clause": "identity comparison only against None / True / False or between types",
            "loc": "%s:%d" % (fi.path.replace(index.repo + "/", ""), fi.lines[0]),
            "function": name, "kind": "frame", "path": 0, "inputs": {}, "solver_output": None})
    return out
