"""Symbolic values of the pyvc engine (DESIGN.md 3.2, A5).

ints   : Python int or z3 Int expression        (A1: mathematical integers)
bools  : Python bool or z3 Bool expression
reals  : fractions.Fraction / Python float (converted) or z3 Real expression (A2)
None   : Python None
EnumV  : member of a finite class (StorageType, interned strings) - a code
Opt    : value that may be None: (isnone, val)
SymList: (arrays per tuple component, length)   - lists / tuples of symbolic length
SymSet : (characteristic array, cardinality)
Obj    : reference to a heap record (self, ghost state)
ActionV: an emitted action (kind + argument values)
"""
from fractions import Fraction

import z3


class Unsupported(Exception):
    """Construct outside the verified subset: the function is reported as not under vc."""


class EngineError(Exception):
    pass


def is_z3(x):
    return isinstance(x, z3.ExprRef)


def is_boolish(x):
    return isinstance(x, bool) or (is_z3(x) and z3.is_bool(x))


def is_intish(x):
    return (isinstance(x, int) and not isinstance(x, bool)) or (is_z3(x) and z3.is_int(x))


def is_realish(x):
    return isinstance(x, (Fraction, float)) or (is_z3(x) and z3.is_real(x))


def is_numish(x):
    return is_intish(x) or is_realish(x)


def concretize(e):
    """z3 numeral / true / false -> Python constant; anything else unchanged."""
    if not is_z3(e):
        return e
    if z3.is_int_value(e):
        return e.as_long()
    if z3.is_true(e):
        return True
    if z3.is_false(e):
        return False
    if z3.is_rational_value(e):
        return Fraction(e.numerator_as_long(), e.denominator_as_long())
    return e


def simp(e):
    if not is_z3(e):
        return e
    return concretize(z3.simplify(e))


def Z(x):
    """To a z3 expression (ints, bools, reals)."""
    if is_z3(x):
        return x
    if isinstance(x, bool):
        return z3.BoolVal(x)
    if isinstance(x, int):
        return z3.IntVal(x)
    if isinstance(x, Fraction):
        return z3.RealVal(str(x))
    if isinstance(x, float):
        if x != x or x in (float("inf"), float("-inf")):
            raise Unsupported("non-finite float constant")
        return z3.RealVal(str(Fraction(str(x))))
    raise EngineError("cannot convert %r to z3" % (x,))


def ZB(x):
    if isinstance(x, bool):
        return z3.BoolVal(x)
    if is_z3(x) and z3.is_bool(x):
        return x
    raise EngineError("not a boolean: %r" % (x,))


def ZR(x):
    z = Z(x)
    if z3.is_int(z):
        return z3.ToReal(z)
    return z


class EnumV:
    """Member of a finite class. sort: 'StorageType' | 'str'. code: int or z3 Int."""
    __slots__ = ("sort", "code")

    def __init__(self, sort, code):
        self.sort = sort
        self.code = code

    def __repr__(self):
        return "EnumV(%s,%s)" % (self.sort, self.code)


STORAGE_CODES = {"RAM": 0, "DISK": 1, "WORK": 2, "NONE": 3}
STORAGE_NAMES = {v: k for k, v in STORAGE_CODES.items()}
STEPTYPE = {"NONE": 0, "FORWARD": 1, "FORWARD_REVERSE": 2, "WRITE_ADJ_DEPS": 3, "WRITE_ICS": 4,
            "READ_ADJ_DEPS": 5, "READ_ICS": 6}


class Opt:
    """A value that may be None."""
    __slots__ = ("isnone", "val")

    def __init__(self, isnone, val):
        self.isnone = isnone
        self.val = val

    def __repr__(self):
        return "Opt(%s,%s)" % (self.isnone, self.val)


class SymList:
    """List or tuple of symbolic length. arrs: one z3 array per element component;
    etypes: type descriptor per component; tup: elements are tuples."""
    __slots__ = ("arrs", "length", "etypes", "tup", "immutable", "parts")

    def __init__(self, arrs, length, etypes, tup=False, immutable=False, parts=None):
        self.parts = parts          # a + b: the operands, so that facts can be stated per operand
        self.arrs = tuple(arrs)
        self.length = length
        self.etypes = tuple(etypes)
        self.tup = tup
        self.immutable = immutable

    def __repr__(self):
        return "SymList(len=%s,%s)" % (self.length, self.etypes)


class EmptyList:
    """[] whose element type is not known yet."""
    def __repr__(self):
        return "EmptyList"


class SymSet:
    __slots__ = ("arr", "card")

    def __init__(self, arr, card):
        self.arr = arr
        self.card = card


class Obj:
    """Reference to a heap record."""
    __slots__ = ("oid", "cls")

    def __init__(self, oid, cls):
        self.oid = oid
        self.cls = cls

    def __repr__(self):
        return "Obj(%s:%s)" % (self.oid, self.cls)


class ActionV:
    __slots__ = ("kind", "args")

    def __init__(self, kind, args):
        self.kind = kind
        self.args = tuple(args)

    def __repr__(self):
        return "%s%s" % (self.kind, self.args)


class ClassRef:
    def __init__(self, name):
        self.name = name


class TypeV:
    """type(x) of an object whose class is symbolic: a code."""
    def __init__(self, code):
        self.code = code


class FuncV:
    """A nested def (closure), inlined at call sites."""
    def __init__(self, node, frame_index, qualname):
        self.node = node
        self.frame_index = frame_index
        self.qualname = qualname


class DictV:
    """dict with concrete keys (strings or ints) and symbolic values."""
    def __init__(self, items):
        self.items = dict(items)      # key (str | int) -> value


class ObjList:
    """List (symbolic length) of objects of one class, stored field-wise: scalar field f ->
    array row -> value; list field f -> array row -> (array index -> value) plus f.len."""
    def __init__(self, cls, arrays, length, ftypes):
        self.cls = cls
        self.arrays = dict(arrays)      # "f" / "f.len" -> z3 array
        self.length = length
        self.ftypes = dict(ftypes)      # field -> type descriptor


class RowRef:
    """opt[m]: one object of an ObjList (materialised on demand)."""
    def __init__(self, lst, row, target):
        self.lst = lst
        self.row = row
        self.target = target            # AST node naming the ObjList (for write-back)


class PartialV:
    def __init__(self, func, kwargs):
        self.func = func
        self.kwargs = dict(kwargs)


class ListLit(tuple):
    """A list literal of known length ([0, jmin]); behaves like a tuple until it is mutated
    or havoc'd, when it is converted to a SymList."""


class SymMap2:
    """dict keyed by pairs of ints: (present: Array(Int,Int->Bool), val: Array(Int,Int->Int))."""
    def __init__(self, present, val):
        self.present = present
        self.val = val


class NdArray3:
    """numpy int64 array of shape (d0, d1, 3): one z3 array (Int, Int -> Int) per last-axis slot."""
    def __init__(self, comps, d0, d1):
        self.comps = tuple(comps)
        self.d0 = d0
        self.d1 = d1


class IndexV:
    """Operation.index: a scalar step (ip False: value i0) or a pair [i0, i1] (ip True)."""
    def __init__(self, ip, i0, i1):
        self.ip, self.i0, self.i1 = ip, i0, i1

    def __repr__(self):
        return "IndexV(%s,%s,%s)" % (self.ip, self.i0, self.i1)


class Grid2:
    """List of d0 lists of d1 extended reals (a cost table): inf[l][m] tells float('inf')."""
    def __init__(self, inf, val, d0, d1):
        self.inf, self.val, self.d0, self.d1 = inf, val, d0, d1


class GridRow:
    """grid[l] (read or write through it)."""
    def __init__(self, grid, row):
        self.grid, self.row = grid, row


class ExtV:
    """Extended real read from a cost table: inf tells float('inf').  Lives only inside one
    expression (sums and comparisons); every other use requires the entry to be finite."""
    def __init__(self, inf, val):
        self.inf, self.val = inf, val


class RangeV:
    def __init__(self, lo, hi, step=1):
        self.lo, self.hi, self.step = lo, hi, step


class Inf:
    """float('inf') as a tagged value (A2)."""
    def __repr__(self):
        return "Inf"


INF = Inf()
