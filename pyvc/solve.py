"""Discharge obligations: one SMT query each, z3 first, cvc5 on z3's unknowns.
An obligation is *discharged* only on `unsat` of (path condition and not goal)."""
import multiprocessing as mp
import os
import subprocess
import tempfile
import time

import z3

NPROC = int(os.environ.get("VERIF_NPROC", "16"))
WORK = os.path.join(os.path.dirname(os.path.dirname(os.path.abspath(__file__))), ".work")


def to_smt2(pc, goal):
    s = z3.Solver()
    for c in pc:
        s.add(c)
    s.add(z3.Not(goal))
    return s.to_smt2()


def _model_dict(m, limit=60):
    out = {}
    for d in m.decls():
        if d.arity() != 0:
            continue
        name = d.name()
        v = m[d]
        try:
            if z3.is_int_value(v):
                out[name] = v.as_long()
            elif z3.is_true(v) or z3.is_false(v):
                out[name] = z3.is_true(v)
            elif z3.is_rational_value(v):
                out[name] = str(v)
            else:
                s = str(v)
                if len(s) < 200:
                    out[name] = s
        except Exception:
            pass
        if len(out) >= limit:
            break
    return out


def _symbols(e, cache):
    eid = e.get_id()
    if eid in cache:
        return cache[eid]
    out = set()
    stack = [e]
    seen = set()
    while stack:
        x = stack.pop()
        xid = x.get_id()
        if xid in seen:
            continue
        seen.add(xid)
        if z3.is_quantifier(x):
            stack.append(x.body())
            continue
        if z3.is_app(x):
            d = x.decl()
            if d.kind() == z3.Z3_OP_UNINTERPRETED:
                out.add(d.name())
            stack.extend(x.children())
    cache[eid] = out
    return out


def _slice(assertions, depth):
    """Hypotheses in the `depth`-step symbol neighbourhood of the goal (the last assertion).
    Proving the goal from a subset of the hypotheses is sound."""
    cache = {}
    goal = assertions[-1]
    hyps = assertions[:-1]
    syms = set(_symbols(goal, cache))
    chosen = set()
    for _ in range(depth):
        added = False
        for i, h in enumerate(hyps):
            if i in chosen:
                continue
            hs = _symbols(h, cache)
            if hs & syms:
                chosen.add(i)
                added = True
        for i in chosen:
            syms |= _symbols(hyps[i], cache)
        if not added:
            break
    return [hyps[i] for i in sorted(chosen)] + [goal]


_PREFER = None


def preferred_backends():
    """obligation name -> the stage that discharged it on the reference tree (ledger.json).  Trying
    that stage first, with a generous limit, makes the verdict on unchanged code independent of how
    many cheaper stages time out under load; it never changes what counts as proved."""
    global _PREFER
    if _PREFER is None:
        _PREFER = {}
        try:
            import json
            with open(os.path.join(os.path.dirname(os.path.dirname(os.path.abspath(__file__))), "ledger.json")) as f:
                for name, e in json.load(f).get("obligations", {}).items():
                    if e.get("backend"):
                        _PREFER[name] = e["backend"]
        except Exception:
            _PREFER = {}
    return _PREFER


def _solve_one(job, stage_s=2, cvc5_s=6):
    idx, text, timeout_ms, tactic = job[:4]
    prefer = job[4] if len(job) > 4 else None
    t0 = time.time()
    res5 = None
    try:
        s = z3.Solver()
        s.set("timeout", timeout_ms)
        s.from_string(text)
        asserts = list(s.assertions())
        n_ax = tactic if isinstance(tactic, int) else 0
        goal = asserts[-1]
        hyps = asserts[:-1]
        plain = hyps[:len(hyps) - n_ax] if n_ax else hyps
        # small, stable queries first: (a) symbol-neighbourhood slices of the path condition
        # without the spec-function axioms, (b) the whole path condition without them,
        # (c) slices with the axioms; only then the full query. Proving from a subset of the
        # hypotheses is sound.
        stages = []
        if len(plain) > 12:
            stages += [("slice1", _slice(plain + [goal], 1)), ("slice2", _slice(plain + [goal], 2))]
        if n_ax:
            stages += [("no-axioms", plain + [goal])]
            # ground facts of the path + the spec-function axioms (unfolding a definition for
            # the values just computed needs no quantified invariant)
            ground = [h for h in plain if not _has_quantifier(h, None)]
            stages += [("ground+ax", ground + hyps[len(hyps) - n_ax:] + [goal])]
            if len(hyps) > 12:
                stages += [("slice1+ax", _slice(hyps + [goal], 1))]
        if prefer:
            # the stage that discharged this obligation on the reference tree goes first
            first = [(l, sub) for l, sub in stages if "z3(%s)" % l == prefer and len(sub) < len(asserts)]
            if first:
                s1 = z3.Solver()
                s1.add(*first[0][1])
                r1, _m, _why = _z3_cli(s1.to_smt2(), 20, want_model=False)
                if r1 == "unsat":
                    return idx, "unsat", None, time.time() - t0, prefer
            elif prefer == "cvc5":
                res5, _t5 = _cvc5(text, 20)
                if res5 == "unsat":
                    return idx, "unsat", None, time.time() - t0, "cvc5"
            elif prefer == "z3":
                r, model, reason = _z3_cli(text, max(2, timeout_ms // 1000))
                if r == "unsat":
                    return idx, "unsat", None, time.time() - t0, "z3"
                if r == "sat":
                    return idx, "sat", model, time.time() - t0, "z3"
        for label, sub in stages:
            if len(sub) >= len(asserts):
                continue
            s1 = z3.Solver()
            s1.add(*sub)
            # every solver call is a separate process with a hard limit: z3's soft timeout /
            # rlimit are not always honoured inside nonlinear arithmetic
            r1, _m, _why = _z3_cli(s1.to_smt2(), stage_s, want_model=False)
            if r1 == "unsat":
                return idx, "unsat", None, time.time() - t0, "z3(%s)" % label
        # second solver early: cvc5 decides in well under a second several quantified
        # obligations (minimum == recurrence) that z3 only finds late or not at all
        res5, _t5 = _cvc5(text, cvc5_s)
        if res5 == "unsat":
            return idx, "unsat", None, time.time() - t0, "cvc5"
        # the full query runs in a separate z3 process with a *hard* time limit (z3's soft
        # timeout is not always honoured inside nonlinear arithmetic)
        r, model, reason = _z3_cli(text, max(2, timeout_ms // 1000))
        if r == "unsat":
            return idx, "unsat", None, time.time() - t0, "z3"
        if r == "sat":
            return idx, "sat", model, time.time() - t0, "z3"
    except Exception as exc:   # a solver crash is an unknown, never a verdict
        reason = "z3 exception: %r" % (exc,)
    return idx, "unknown", {"reason": reason, "cvc5": res5}, time.time() - t0, "z3+cvc5"


Z3_CLI = "/usr/local/bin/z3-new"
_DEF = None


def _z3_cli(text, tlimit_s, seed=None, want_model=True):
    """-> (status, model dict | None, reason)"""
    import re
    os.makedirs(WORK, exist_ok=True)
    fd, path = tempfile.mkstemp(suffix=".smt2", dir=WORK)
    try:
        with os.fdopen(fd, "w") as f:
            body = text.replace("(check-sat)", "")
            f.write(body + "\n(check-sat)\n" + ("(get-model)\n" if want_model else ""))
        args = [Z3_CLI, "-smt2", "-T:%d" % tlimit_s, path]
        if seed is not None:
            args.insert(1, "smt.random_seed=%d" % seed)
        try:
            p = subprocess.run(args, capture_output=True, text=True, timeout=tlimit_s + 10)
        except subprocess.TimeoutExpired:
            return "unknown", None, "hard timeout"
        out = p.stdout.strip()
        first = out.splitlines()[0] if out else ""
        if first == "unsat":
            return "unsat", None, ""
        if first == "sat":
            model = {}
            for m in re.finditer(r"\(define-fun\s+(\S+)\s+\(\)\s+(Int|Bool|Real)\s+([^\n]+?)\)\s*$", out, re.M):
                name, sort, val = m.group(1).strip("|"), m.group(2), m.group(3).strip()
                if sort == "Int":
                    mm = re.match(r"^\(-\s+(\d+)\)$", val)
                    model[name] = -int(mm.group(1)) if mm else (int(val) if re.match(r"^-?\d+$", val) else val)
                elif sort == "Bool":
                    model[name] = (val == "true")
                else:
                    model[name] = val
                if len(model) > 80:
                    break
            return "sat", model, ""
        return "unknown", None, (first or p.stderr.strip())[:200]
    finally:
        try:
            os.unlink(path)
        except OSError:
            pass


def _cvc5(text, tlimit_s):
    os.makedirs(WORK, exist_ok=True)
    fd, path = tempfile.mkstemp(suffix=".smt2", dir=WORK)
    try:
        with os.fdopen(fd, "w") as f:
            f.write("(set-logic ALL)\n" + text)
        t0 = time.time()
        try:
            p = subprocess.run(["/usr/bin/cvc5", "--lang=smt2", "--tlimit=%d" % (tlimit_s * 1000), path],
                               capture_output=True, text=True, timeout=tlimit_s + 5)
        except subprocess.TimeoutExpired:
            return "timeout", time.time() - t0
        out = p.stdout.strip().splitlines()
        if out and out[0] in ("sat", "unsat"):
            return out[0], time.time() - t0
        return "unknown(%s)" % ((p.stdout + p.stderr).strip()[:120]), time.time() - t0
    finally:
        try:
            os.unlink(path)
        except OSError:
            pass


def discharge(obligations, timeout_s=20, nproc=None):
    """Returns a list of dicts aligned with `obligations`."""
    jobs = []
    results_trivial = []
    for i, ob in enumerate(obligations):
        if getattr(ob, "vacuous", False):
            continue
        if getattr(ob, "trivial", False):
            results_trivial.append(i)
            continue
        jobs.append((i, to_smt2(ob.pc, ob.goal), int(timeout_s * 1000), None))
    results = [None] * len(obligations)
    nproc = nproc or NPROC
    if len(jobs) <= 2 or nproc <= 1:
        outs = [_solve_one(j) for j in jobs]
    else:
        with mp.get_context("fork").Pool(min(nproc, len(jobs))) as pool:
            outs = pool.map(_solve_one, jobs, chunksize=1)
    for idx, status, model, t, backend in outs:
        results[idx] = {"status": status, "model": model, "time_s": round(t, 3), "backend": backend}
    for i in results_trivial:
        results[i] = {"status": "unsat", "model": None, "time_s": 0.0, "backend": "z3-simplify"}
    for i, ob in enumerate(obligations):
        if results[i] is None:
            results[i] = {"status": "vacuous", "model": None, "time_s": 0.0, "backend": "-"}
    return results


def check_sat(pcs, timeout_s=5, nproc=None):
    """Vacuity covers: is each path condition satisfiable?  -> list of 'sat'/'unsat'/'unknown'."""
    jobs = []
    for i, pc in enumerate(pcs):
        s = z3.Solver()
        for c in pc:
            s.add(c)
        jobs.append((i, s.to_smt2(), int(timeout_s * 1000), None))
    if not jobs:
        return []
    nproc = nproc or NPROC
    if len(jobs) <= 2 or nproc <= 1:
        outs = [_solve_one(j) for j in jobs]
    else:
        with mp.get_context("fork").Pool(min(nproc, len(jobs))) as pool:
            outs = pool.map(_solve_one, jobs, chunksize=2)
    res = [None] * len(pcs)
    for idx, status, model, t, backend in outs:
        res[idx] = status
    return res


def discharge_texts(obligations, timeout_s=20, nproc=None):
    """Same as discharge() for already serialised obligations (dicts with 'smt2')."""
    jobs = []
    results = [None] * len(obligations)
    for i, ob in enumerate(obligations):
        if ob.get("vacuous"):
            results[i] = {"status": "vacuous", "model": None, "time_s": 0.0, "backend": "-"}
        elif ob.get("trivial"):
            results[i] = {"status": "unsat", "model": None, "time_s": 0.0, "backend": "z3-simplify"}
        else:
            jobs.append((i, ob["smt2"], int(timeout_s * 1000), int(ob.get("n_axioms", 0)),
                         preferred_backends().get(ob.get("name"))))
    nproc = nproc or NPROC
    if len(jobs) <= 2 or nproc <= 1:
        outs = [_solve_one(j) for j in jobs]
    else:
        with mp.get_context("fork").Pool(min(nproc, len(jobs))) as pool:
            outs = pool.map(_solve_one, jobs, chunksize=1)
    for idx, status, model, t, backend in outs:
        results[idx] = {"status": status, "model": model, "time_s": round(t, 3), "backend": backend}
    # second round for the unknowns: longer budget, another seed; then a candidate
    # counterexample from the quantifier-free relaxation (for the replay, never a verdict)
    retry = [(i, obligations[i]["smt2"], int(timeout_s * 3000), 17, int(obligations[i].get("n_axioms", 0)))
             for i, r in enumerate(results) if r["status"] == "unknown"]
    if retry:
        with mp.get_context("fork").Pool(min(nproc, len(retry), 8)) as pool:
            outs = pool.map(_solve_retry, retry, chunksize=1)
        for idx, status, model, t, backend in outs:
            prev = results[idx]
            results[idx] = {"status": status, "model": model, "time_s": round(prev["time_s"] + t, 3),
                            "backend": backend}
    return results


def _has_quantifier(e, cache):
    stack = [e]
    seen = set()
    while stack:
        x = stack.pop()
        xid = x.get_id()
        if xid in seen:
            continue
        seen.add(xid)
        if z3.is_quantifier(x):
            return True
        stack.extend(x.children())
    return False


def _solve_retry(job):
    idx, text, timeout_ms, seed = job[:4]
    t0 = time.time()
    try:
        # every stage again with a much larger budget (an obligation that a hypothesis slice proves in
        # one second on a quiet machine must not become "no longer provable" on a loaded one)
        i2, st2, m2, _t2, be2 = _solve_one((idx, text, timeout_ms, job[4] if len(job) > 4 else None), stage_s=20, cvc5_s=40)
        if st2 in ("unsat", "sat"):
            return idx, st2, m2, time.time() - t0, be2 + "(retry)"
        r, model, reason = _z3_cli(text, max(5, timeout_ms // 1000), seed=seed)
        if r == "unsat":
            return idx, "unsat", None, time.time() - t0, "z3(retry)"
        if r == "sat":
            return idx, "sat", model, time.time() - t0, "z3(retry)"
        # relaxation: drop the quantified hypotheses; a model of the rest is a *candidate*
        s = z3.Solver()
        s.from_string(text)
        s2 = z3.Solver()
        for a in s.assertions():
            if not _has_quantifier(a, None):
                s2.add(a)
        r2, model, _why = _z3_cli(s2.to_smt2(), 8)
        if r2 == "sat":
            model = model or {}
            model["_relaxed"] = "candidate from the quantifier-free relaxation (may be spurious)"
        elif r2 == "unsat":
            return idx, "unsat", None, time.time() - t0, "z3(qf-relaxation)"
        else:
            model = None
        return idx, "unknown", model or {"reason": reason}, time.time() - t0, "z3(retry)"
    except Exception as exc:
        return idx, "unknown", {"reason": "z3 exception %r" % (exc,)}, time.time() - t0, "z3(retry)"


def _sat_one(job):
    idx, text, timeout_ms = job
    try:
        r, _m, _why = _z3_cli(text, max(1, timeout_ms // 1000), want_model=False)
        return idx, r
    except Exception:
        return idx, "unknown"


def check_sat_texts(texts, timeout_s=3, nproc=None):
    jobs = [(i, t, int(timeout_s * 1000)) for i, t in enumerate(texts)]
    if not jobs:
        return []
    nproc = nproc or NPROC
    if len(jobs) <= 2 or nproc <= 1:
        outs = [_sat_one(j) for j in jobs]
    else:
        with mp.get_context("fork").Pool(min(nproc, len(jobs))) as pool:
            outs = pool.map(_sat_one, jobs, chunksize=2)
    res = [None] * len(texts)
    for idx, status in outs:
        res[idx] = status
    return res
