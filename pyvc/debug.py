"""Dump / re-solve individual obligations:  python3-vt -m pyvc.debug --only twolevel --match decreases"""
import argparse, sys, time
import z3
from . import api, solve


def main(argv):
    ap = argparse.ArgumentParser()
    ap.add_argument("--only", nargs="*")
    ap.add_argument("--repo", default="/repo")
    ap.add_argument("--match", required=True)
    ap.add_argument("--dump", default=None)
    ap.add_argument("--qf", action="store_true", help="drop quantified hypotheses")
    ap.add_argument("--timeout", type=int, default=20)
    ap.add_argument("--show", action="store_true")
    a = ap.parse_args(argv)
    index, reg, recs = api.generate(a.repo, a.only)
    obs = [o for r in recs for o in r["obligations"]]
    api.attach_spec_axioms(reg, obs)
    sel = [o for o in obs if a.match in o.name and not getattr(o, "trivial", False)]
    print("selected", len(sel))
    for k, ob in enumerate(sel):
        pc = ob.pc
        if a.qf:
            pc = [c for c in pc if "ForAll" not in c.sexpr()[:0] and not _hasq(c)]
        s = z3.Solver()
        s.set("timeout", a.timeout * 1000)
        for c in pc:
            s.add(c)
        s.add(z3.Not(ob.goal))
        t0 = time.time()
        r = s.check()
        print(k, ob.name, "path", ob.path_id, r, "%.2fs" % (time.time() - t0), "pc=%d" % len(pc))
        if a.show:
            for c in pc:
                print("    ", str(c).replace("\n", " ")[:300])
            print("  GOAL", ob.goal)
        if r == z3.sat and a.show:
            print(s.model())
        if a.dump:
            open("%s.%d.smt2" % (a.dump, k), "w").write(s.to_smt2())


def _hasq(e):
    stack = [e]
    seen = set()
    while stack:
        x = stack.pop()
        if x.get_id() in seen:
            continue
        seen.add(x.get_id())
        if z3.is_quantifier(x):
            return True
        stack.extend(x.children())
    return False


if __name__ == "__main__":
    main(sys.argv[1:])
