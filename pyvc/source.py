"""Mechanical extraction (DESIGN.md 3.1): locate the real functions in /repo's working
tree on every run, number their sites (loops, yields, calls, asserts, raises,
subscripts) so that sidecar contracts can be anchored without line numbers."""
import ast
import hashlib
import os
import subprocess


class AnchorError(Exception):
    pass


MODULES = {
    "schedule": "checkpoint_schedules/schedule.py",
    "basic_schedules": "checkpoint_schedules/basic_schedules.py",
    "multistage": "checkpoint_schedules/multistage.py",
    "mixed": "checkpoint_schedules/mixed.py",
    "twolevel_binomial": "checkpoint_schedules/twolevel_binomial.py",
    "hrevolve": "checkpoint_schedules/hrevolve.py",
    "seq.basic_functions": "checkpoint_schedules/hrevolve_sequences/basic_functions.py",
    "seq.revolve": "checkpoint_schedules/hrevolve_sequences/revolve.py",
    "seq.hrevolve": "checkpoint_schedules/hrevolve_sequences/hrevolve.py",
    "seq.disk_revolve": "checkpoint_schedules/hrevolve_sequences/disk_revolve.py",
    "seq.periodic_disk_revolve": "checkpoint_schedules/hrevolve_sequences/periodic_disk_revolve.py",
    "seq.utils": "checkpoint_schedules/hrevolve_sequences/utils.py",
}


class FuncInfo:
    def __init__(self, module, qualname, node, path, cls=None):
        self.module = module
        self.qualname = qualname
        self.node = node
        self.path = path
        self.cls = cls
        self.lines = (node.lineno, node.end_lineno)
        self.sites = {}      # id(ast node) -> site label
        self.loops = []      # loop nodes in source order
        self.yields = []
        self._number()

    @property
    def name(self):
        return self.module + "." + self.qualname

    def is_generator(self):
        return bool(self.yields)

    def _number(self):
        counts = {}

        def label(kind, key=None):
            k = (kind, key)
            counts[k] = counts.get(k, 0) + 1
            i = counts[k] - 1
            return "%s[%d]%s" % (kind, i, (":" + key) if key else "")

        own = self.node

        class V(ast.NodeVisitor):
            def visit_FunctionDef(s, n):
                if n is own:
                    s.generic_visit(n)
                # nested defs are numbered when they are inlined (their own FuncInfo)

            def visit_Lambda(s, n):
                s.generic_visit(n)

            def visit_While(s, n):
                self.sites[id(n)] = label("loop")
                self.loops.append(n)
                s.generic_visit(n)

            def visit_For(s, n):
                self.sites[id(n)] = label("loop")
                self.loops.append(n)
                s.generic_visit(n)

            def visit_Yield(s, n):
                kind = None
                if isinstance(n.value, ast.Call) and isinstance(n.value.func, ast.Name):
                    kind = n.value.func.id
                self.sites[id(n)] = label("yield", kind)
                self.yields.append(n)
                s.generic_visit(n)

            def visit_YieldFrom(s, n):
                self.sites[id(n)] = label("yieldfrom")
                self.yields.append(n)
                s.generic_visit(n)

            def visit_Call(s, n):
                f = n.func
                key = f.id if isinstance(f, ast.Name) else (f.attr if isinstance(f, ast.Attribute) else None)
                self.sites[id(n)] = label("call", key)
                s.generic_visit(n)

            def visit_Assert(s, n):
                self.sites[id(n)] = label("assert")
                s.generic_visit(n)

            def visit_Raise(s, n):
                self.sites[id(n)] = label("raise")
                s.generic_visit(n)

            def visit_Subscript(s, n):
                self.sites[id(n)] = label("index")
                s.generic_visit(n)

            def visit_BinOp(s, n):
                if isinstance(n.op, (ast.FloorDiv, ast.Mod, ast.Div)):
                    self.sites[id(n)] = label("div")
                s.generic_visit(n)

            def visit_Assign(s, n):
                if len(n.targets) == 1 and isinstance(n.targets[0], ast.Name):
                    self.sites[id(n)] = label("assign", n.targets[0].id)
                elif len(n.targets) == 1 and isinstance(n.targets[0], ast.Subscript):
                    self.sites[id(n)] = label("store")
                s.generic_visit(n)

            def visit_Compare(s, n):
                self.sites[id(n)] = label("cmp")
                s.generic_visit(n)

            def visit_Attribute(s, n):
                if isinstance(n.ctx, ast.Load):
                    self.sites[id(n)] = label("attr", n.attr)
                s.generic_visit(n)

            def visit_Return(s, n):
                self.sites[id(n)] = label("return")
                s.generic_visit(n)
        V().visit(own)

    def site(self, node, default="site"):
        return self.sites.get(id(node), "%s@L%d" % (default, getattr(node, "lineno", 0) - self.lines[0]))


class SourceIndex:
    """All functions of the repository modules, parsed from the working tree."""

    def __init__(self, repo="/repo"):
        self.repo = repo
        self.funcs = {}
        self.trees = {}
        self.blobs = {}
        self.module_consts = {}
        for mod, rel in MODULES.items():
            path = os.path.join(repo, rel)
            with open(path, "rb") as f:
                data = f.read()
            self.blobs[mod] = hashlib.sha1(b"blob %d\0" % len(data) + data).hexdigest()
            tree = ast.parse(data, filename=path)
            self.trees[mod] = tree
            self._index(mod, tree, path)

    def code_hashes(self):
        """module -> hash of its code *without* docstrings, comments and formatting (ast.dump of the
        module with every docstring removed): tells whether the package's code differs from the
        reference tree in any way that can matter."""
        out = {}
        trees = {}
        pkg = os.path.join(self.repo, "checkpoint_schedules")
        for root, _dirs, files in os.walk(pkg):
            for fn in sorted(files):
                if fn.endswith(".py"):
                    path = os.path.join(root, fn)
                    with open(path, "rb") as f:
                        trees[os.path.relpath(path, self.repo)] = ast.parse(f.read(), filename=path)
        for mod, tree in sorted(trees.items()):
            t = ast.parse(ast.unparse(tree))
            for node in ast.walk(t):
                if isinstance(node, (ast.FunctionDef, ast.ClassDef, ast.Module, ast.AsyncFunctionDef)) and node.body \
                        and isinstance(node.body[0], ast.Expr) and isinstance(node.body[0].value, ast.Constant) \
                        and isinstance(node.body[0].value.value, str):
                    node.body = node.body[1:] or [ast.Pass()]
            out[mod] = hashlib.sha1(ast.dump(t).encode()).hexdigest()
        return out

    def _index(self, mod, tree, path):
        consts = {}
        for node in tree.body:
            if isinstance(node, ast.FunctionDef):
                self._add(mod, node.name, node, path, None)
            elif isinstance(node, ast.ClassDef):
                for sub in node.body:
                    if isinstance(sub, ast.FunctionDef):
                        self._add(mod, node.name + "." + sub.name, sub, path, node.name)
                    elif isinstance(sub, ast.Assign) and len(sub.targets) == 1 and \
                            isinstance(sub.targets[0], ast.Name) and isinstance(sub.value, ast.Attribute) \
                            and isinstance(sub.value.value, ast.Name):
                        # method alias in a class body:  __iter__ = Forward.__iter__
                        src = "%s.%s.%s" % (mod, sub.value.value.id, sub.value.attr)
                        if src in self.funcs:
                            self._add(mod, node.name + "." + sub.targets[0].id, self.funcs[src].node, path,
                                      node.name)
            elif isinstance(node, ast.Assign) and len(node.targets) == 1 and \
                    isinstance(node.targets[0], ast.Name):
                consts[node.targets[0].id] = node.value
        self.module_consts[mod] = consts

    def _add(self, mod, qual, node, path, cls):
        # properties with the same name (getter only in this code base)
        key = mod + "." + qual
        self.funcs[key] = FuncInfo(mod, qual, node, path, cls)
        # nested defs
        for sub in ast.walk(node):
            if isinstance(sub, ast.FunctionDef) and sub is not node:
                k2 = key + ".<locals>." + sub.name
                if k2 not in self.funcs:
                    self.funcs[k2] = FuncInfo(mod, qual + ".<locals>." + sub.name, sub, path, cls)

    def get(self, name):
        if name not in self.funcs:
            raise AnchorError("function %s not found in the working tree" % name)
        return self.funcs[name]

    def class_node(self, mod, cls):
        for node in self.trees[mod].body:
            if isinstance(node, ast.ClassDef) and node.name == cls:
                return node
        raise AnchorError("class %s.%s not found" % (mod, cls))

    def decorators(self, name):
        out = []
        for d in self.get(name).node.decorator_list:
            out.append(ast.unparse(d))
        return out


def describe(fi, index):
    blob = index.blobs.get(fi.module)
    if blob is None:
        with open(fi.path, "rb") as f:
            data = f.read()
        blob = hashlib.sha1(b"blob %d\0" % len(data) + data).hexdigest()
    rel = os.path.relpath(fi.path, index.repo) if fi.path.startswith(index.repo) else fi.path
    return {"name": fi.name, "file": rel, "lines": list(fi.lines), "blob": blob}
