"""Public entry points of the VC engine."""
import importlib
import json
import os
import sys
import time
import traceback

import z3

from .contracts import Registry
from .source import SourceIndex, AnchorError, describe
from .values import Unsupported, EngineError
from .verifier import Verifier
from . import solve
from . import lemmas

CONTRACT_MODULES = ["schedule", "basic_schedules", "multistage"]
VERIF = os.path.dirname(os.path.dirname(os.path.abspath(__file__)))


def build_registry():
    reg = Registry()
    if VERIF not in sys.path:
        sys.path.insert(0, VERIF)
    for m in CONTRACT_MODULES:
        mod = importlib.import_module("contracts." + m)
        mod.register(reg)
    return reg


def generate(repo="/repo", only=None, props=None):
    """Generate all obligations from the current working tree.
    Returns (index, reg, per_function list)."""
    index = SourceIndex(repo)
    reg = build_registry()
    out = []
    for name, c in reg.contracts.items():
        if c.assumed:
            continue
        if only and not any(name.endswith(o) or o in name for o in only):
            continue
        if props and not (set(c.props) & set(props)):
            # obligations of a function may carry other properties than the contract default
            if not any(set(p or ()) & set(props) for _, _, p in c.ensures) and \
                    not (c.hooks and set(c.hooks.get("props", ())) & set(props)):
                continue
        rec = {"name": name, "contract": c, "obligations": [], "covers": [], "error": None,
               "status": "ok", "fi": None, "gen_s": 0.0}
        t0 = time.time()
        try:
            if name.startswith("ghost."):
                _, gmod, gfn = name.split(".", 2)
                fi = reg.ghost_function(gmod, gfn)
            else:
                fi = index.get(name)
            rec["fi"] = fi
            v = Verifier(index, reg, fi, c)
            v.run()
            rec["obligations"] = v.obligations
            rec["covers"] = v.covers
            rec["npaths"] = v.npaths
        except AnchorError as exc:
            rec["status"] = "anchor_error"
            rec["error"] = str(exc)
        except Unsupported as exc:
            rec["status"] = "unsupported"
            rec["error"] = str(exc)
        except (EngineError, z3.Z3Exception, RecursionError) as exc:
            rec["status"] = "engine_error"
            rec["error"] = "%s: %s\n%s" % (type(exc).__name__, exc, traceback.format_exc()[-1500:])
        rec["gen_s"] = round(time.time() - t0, 2)
        out.append(rec)
    return index, reg, out


def _decl_names(e, cache):
    out = set()
    stack = [e]
    seen = set()
    while stack:
        x = stack.pop()
        xid = x.get_id()
        if xid in seen:
            continue
        seen.add(xid)
        if xid in cache:
            out |= cache[xid]
            continue
        if z3.is_app(x) and x.num_args() > 0 and x.decl().kind() == z3.Z3_OP_UNINTERPRETED:
            out.add(x.decl().name())
        if z3.is_quantifier(x):
            stack.append(x.body())
        else:
            stack.extend(x.children())
    cache[e.get_id()] = out
    return out


def attach_spec_axioms(reg, obligations):
    """Definitions and (inductively proved) lemmas of a spec function are added to exactly
    those VCs that mention it."""
    cache = {}
    for ob in obligations:
        if getattr(ob, "trivial", False) or getattr(ob, "vacuous", False):
            continue
        names = set()
        for c in ob.pc + [ob.goal]:
            names |= _decl_names(c, cache)
        used = sorted(n for n in names if n in reg.z3_definitions)
        ob.uses_specs = used
        for n in used:
            for label, f in reg.z3_definitions[n] + reg.z3_lemmas.get(n, []):
                ob.pc.append(f)


def verify(repo="/repo", only=None, props=None, timeout_s=20, verbose=False):
    index, reg, recs = generate(repo, only, props)
    all_obs = []
    for r in recs:
        all_obs.extend(r["obligations"])
    attach_spec_axioms(reg, all_obs)
    lemma_obs = lemmas.obligations(reg) if any(getattr(o, "uses_specs", None) for o in all_obs) else []
    all_obs.extend(lemma_obs)
    t0 = time.time()
    res = solve.discharge(all_obs, timeout_s=timeout_s)
    solve_wall = time.time() - t0
    # vacuity covers
    cov_pcs, cov_keys = [], []
    for r in recs:
        for site, pc in r["covers"]:
            cov_pcs.append(pc)
            cov_keys.append((r["name"], site))
    cov = solve.check_sat(cov_pcs, timeout_s=5)
    covers = {}
    for (fn, site), status in zip(cov_keys, cov):
        key = "%s#%s" % (fn, site)
        prev = covers.get(key)
        # a site is reachable if any path to it is satisfiable
        if prev == "sat":
            continue
        covers[key] = status if prev is None or status == "sat" else prev
    return index, reg, recs, all_obs, res, covers, solve_wall


def summarize(index, reg, recs, all_obs, res, covers, props=None):
    """Obligation list in the format vcheck/cli.py expects."""
    obligations = []
    functions = []
    engine_error = None
    for r in recs:
        if r["fi"] is not None:
            d = describe(r["fi"], index)
            d["status"] = r["status"]
            d["paths"] = r.get("npaths", 0)
            d["obligations"] = len(r["obligations"])
            functions.append(d)
        if r["status"] == "anchor_error":
            obligations.append({"name": r["name"] + "#anchor", "props": list(r["contract"].props),
                                "status": "anchor_error", "note": r["error"], "time_s": 0.0,
                                "function": r["name"], "clause": "sidecar anchors match the source"})
        elif r["status"] == "unsupported":
            obligations.append({"name": r["name"] + "#unsupported", "props": list(r["contract"].props),
                                "status": "unknown", "note": "not under vc: " + r["error"], "time_s": 0.0,
                                "function": r["name"], "clause": "function within the verified subset"})
        elif r["status"] == "engine_error":
            engine_error = "%s: %s" % (r["name"], r["error"])
    for ob, rs in zip(all_obs, res):
        status = {"unsat": "discharged", "sat": "failed", "unknown": "unknown",
                  "vacuous": "vacuous"}[rs["status"]]
        obligations.append({
            "name": ob.name, "props": list(ob.props), "status": status, "backend": rs["backend"],
            "time_s": rs["time_s"], "model": rs["model"], "clause": ob.clause, "loc": ob.loc,
            "function": ob.function, "kind": ob.kind, "path": ob.path_id,
            "solver_output": None if rs["status"] != "unknown" else json.dumps(rs["model"])})
    if props:
        obligations = [o for o in obligations if set(o["props"]) & set(props)]
    # unreachable yield / return sites: vacuity
    dead = [k for k, v in covers.items() if v == "unsat"]
    return {"obligations": obligations, "functions": functions, "engine_error": engine_error,
            "covers": {"sites": len(covers), "reachable": sum(1 for v in covers.values() if v == "sat"),
                       "unreachable": dead},
            "assumptions": [], "delegated_to_bounded": []}


def run_property(prop, tier="quick", seed=0, repo="/repo"):
    timeout = 20 if tier == "quick" else 60
    index, reg, recs, all_obs, res, covers, wall = verify(repo=repo, props=[prop], timeout_s=timeout)
    out = summarize(index, reg, recs, all_obs, res, covers, props=[prop])
    out["assumptions"] = ["assumed contract: %s (%s)" % (n, c.note) for n, c in reg.contracts.items()
                          if c.assumed]
    if not out["obligations"]:
        out["no_vc_expected"] = True
    return out


def replay(rp, repo="/repo"):
    return 0


def main(argv):
    import argparse
    ap = argparse.ArgumentParser()
    ap.add_argument("--only", nargs="*")
    ap.add_argument("--props", nargs="*")
    ap.add_argument("--repo", default="/repo")
    ap.add_argument("--timeout", type=float, default=20)
    ap.add_argument("-v", action="store_true")
    a = ap.parse_args(argv)
    t0 = time.time()
    index, reg, recs, all_obs, res, covers, wall = verify(a.repo, a.only, a.props, a.timeout)
    for r in recs:
        print("%-70s %-12s paths=%-4s obligations=%-4d gen=%.1fs %s" % (
            r["name"], r["status"], r.get("npaths", "-"), len(r["obligations"]), r["gen_s"],
            (r["error"] or "")[:300]))
    bad = 0
    for ob, rs in zip(all_obs, res):
        if rs["status"] != "unsat" or a.v:
            print("  %-8s %-90s %5.2fs %s %s" % (rs["status"], ob.name, rs["time_s"], ob.loc,
                                                 "" if rs["status"] == "unsat" else (ob.clause or "")))
            if rs["status"] == "sat":
                print("           model:", {k: v for k, v in (rs["model"] or {}).items()
                                            if not k.startswith("k!")})
        if rs["status"] != "unsat":
            bad += 1
    dead = [k for k, v in covers.items() if v != "sat"]
    print("obligations=%d discharged=%d not=%d  cover sites=%d unreachable/unknown=%s  wall=%.1fs (solve %.1fs)" % (
        len(all_obs), len(all_obs) - bad, bad, len(covers), dead, time.time() - t0, wall))
    return 0 if bad == 0 else 1


if __name__ == "__main__":
    sys.exit(main(sys.argv[1:]))
