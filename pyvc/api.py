"""Public entry points of the VC engine."""
import importlib
import json
import os
import sys
import time
import traceback

import z3

from .contracts import Registry
from .source import SourceIndex, AnchorError, describe
from .values import Unsupported, EngineError
from .verifier import Verifier
from . import solve
from . import lemmas

CONTRACT_MODULES = ["schedule", "basic_schedules", "multistage", "twolevel", "mixed", "seq_basic", "hrevolve", "seq_periodic", "seq_tables", "seq_revolve", "seq_disk", "seq_hopt"]
VERIF = os.path.dirname(os.path.dirname(os.path.abspath(__file__)))


def build_registry():
    reg = Registry()
    if VERIF not in sys.path:
        sys.path.insert(0, VERIF)
    for m in CONTRACT_MODULES:
        mod = importlib.import_module("contracts." + m)
        mod.register(reg)
    return reg


def generate(repo="/repo", only=None, props=None, exact=False):
    """Generate all obligations from the current working tree.
    Returns (index, reg, per_function list)."""
    index = SourceIndex(repo)
    reg = build_registry()
    out = []
    for name, c in reg.contracts.items():
        if c.assumed:
            continue
        if only and exact and name not in only:
            continue
        if only and not exact and not any(name.endswith(o) or o in name for o in only):
            continue
        if props and not (set(c.props) & set(props)):
            # obligations of a function may carry other properties than the contract default
            if not any(set(p or ()) & set(props) for _, _, p in c.ensures) and \
                    not (c.hooks and set(c.hooks.get("props", ())) & set(props)):
                continue
        rec = {"name": name, "contract": c, "obligations": [], "covers": [], "error": None,
               "status": "ok", "fi": None, "gen_s": 0.0}
        t0 = time.time()
        try:
            if name.startswith("ghost."):
                _, gmod, gfn = name.split(".", 2)
                fi = reg.ghost_function(gmod, gfn)
            else:
                fi = index.get(name.split("#")[0])     # "f#variant": the same function, another contract
            rec["fi"] = fi
            v = Verifier(index, reg, fi, c)
            v.run()
            rec["obligations"] = v.obligations
            rec["covers"] = v.covers
            rec["npaths"] = v.npaths
            rec["feas"] = (getattr(v, "n_retried", 0), getattr(v, "n_unknown", 0), round(getattr(v, "t_retried", 0.0), 1))
        except AnchorError as exc:
            rec["status"] = "anchor_error"
            rec["error"] = str(exc)
        except Unsupported as exc:
            rec["status"] = "unsupported"
            rec["error"] = str(exc)
        except (EngineError, z3.Z3Exception, RecursionError) as exc:
            rec["status"] = "engine_error"
            rec["error"] = "%s: %s\n%s" % (type(exc).__name__, exc, traceback.format_exc()[-1500:])
        rec["gen_s"] = round(time.time() - t0, 2)
        out.append(rec)
    return index, reg, out


def _decl_names(e, cache):
    out = set()
    stack = [e]
    seen = set()
    while stack:
        x = stack.pop()
        xid = x.get_id()
        if xid in seen:
            continue
        seen.add(xid)
        if xid in cache:
            out |= cache[xid]
            continue
        if z3.is_app(x) and x.num_args() > 0 and x.decl().kind() == z3.Z3_OP_UNINTERPRETED:
            out.add(x.decl().name())
        if z3.is_quantifier(x):
            stack.append(x.body())
        else:
            stack.extend(x.children())
    cache[e.get_id()] = out
    return out


def _compile_spec_axioms(reg):
    """Contract-language axioms of spec functions -> z3 formulas (once per registry)."""
    if getattr(reg, "_axioms_compiled", False):
        return
    from .engine import Engine, State, Frame
    from .verifier import Verifier
    from .lemmas import _Dummy
    for fname, axioms in reg.spec_axiom_text.items():
        out = []
        for label, text in axioms:
            eng = Verifier.__new__(Verifier)
            Engine.__init__(eng, None, reg, None, _Dummy(), concrete=False)
            st = State()
            st.frames = [Frame({}, None, None)]
            st.spec_mode = 1
            f = eng.ev_spec(text, st)
            out.append((label, z3.BoolVal(f) if isinstance(f, bool) else f))
        reg.z3_definitions.setdefault(fname, [])
        reg.z3_definitions[fname] = reg.z3_definitions[fname] + out
    reg._axioms_compiled = True


def attach_spec_axioms(reg, obligations):
    """Definitions and (inductively proved) lemmas of a spec function are added to exactly
    those VCs that mention it."""
    _compile_spec_axioms(reg)
    cache = {}
    for ob in obligations:
        if getattr(ob, "trivial", False) or getattr(ob, "vacuous", False):
            continue
        names = set()
        for c in ob.pc + [ob.goal]:
            names |= _decl_names(c, cache)
        # transitively: the definition of one spec function may mention another
        used = set(n for n in names if n in reg.z3_definitions)
        todo = list(used)
        while todo:
            n = todo.pop()
            for label, f in reg.z3_definitions[n] + reg.z3_lemmas.get(n, []):
                for m in _decl_names(f, cache):
                    if m in reg.z3_definitions and m not in used:
                        used.add(m)
                        todo.append(m)
        used = sorted(used)
        ob.uses_specs = used
        ob.n_axioms = 0
        for n in used:
            for label, f in reg.z3_definitions[n] + reg.z3_lemmas.get(n, []):
                ob.pc.append(f)
                ob.n_axioms += 1


def _describe_inputs(inputs):
    """Names of the solver symbols that stand for the function's inputs (for read-back)."""
    from .values import Opt, EnumV
    out = {}
    for label, v in (inputs or {}).items():
        if isinstance(v, Opt):
            if z3.is_expr(v.isnone) and z3.is_expr(v.val):
                out[label] = {"opt": [str(v.isnone), str(v.val)]}
        elif isinstance(v, EnumV):
            if z3.is_expr(v.code):
                out[label] = {"enum": v.sort, "code": str(v.code)}
        elif z3.is_expr(v) and z3.is_const(v):
            out[label] = {"sym": str(v), "bool": z3.is_bool(v)}
    return out


def replay_job(reg, ob, model):
    """Build the native replay job of rtc/replay_fn.py from a failed obligation."""
    c = reg.contracts.get(ob["function"])
    if c is None or c.hooks is not None or ob["function"].startswith("ghost."):
        return None
    model = model or {}

    def val(desc):
        if "sym" in desc:
            return model.get(desc["sym"], False if desc.get("bool") else 0)
        if "opt" in desc:
            none = model.get(desc["opt"][0], False)
            return None if none else model.get(desc["opt"][1], 0)
        if "enum" in desc:
            code = model.get(desc["code"], 0)
            if desc["enum"] == "str":
                try:
                    return reg.string_of(code)
                except Exception:
                    return "<other>"
            return code
        return None
    params, fields, present = {}, {}, {}
    for label, desc in ob.get("inputs", {}).items():
        if label.startswith("self.?"):
            present[label[len("self.?"):]] = val(desc)
        elif label.startswith("self."):
            fields[label[len("self."):]] = val(desc)
        elif "." not in label:
            params[label] = val(desc)
    for f, p in present.items():
        if not p:
            fields[f] = "__absent__"
    kwonly = []
    types = {k: v for k, v in c.params.items() if isinstance(v, str)}
    ftypes = {}
    if c.self_class:
        ftypes = {k: (v[1:] if isinstance(v, str) and v.startswith("?") else v)
                  for k, v in reg.fields_of(c.self_class).items() if isinstance(v, str)}
    return {"function": ob["function"], "class": c.self_class, "params": params, "self_fields": fields,
            "kwonly": kwonly, "types": types, "field_types": ftypes,
            "requires": [[l, e] for l, e in c.requires] +
                        ([[l, e] for l, e in reg.invariant_of(c.self_class)]
                         if c.self_class and c.short != "__init__" else []),
            "ensures": [[l, e] for l, e, _ in c.ensures], "raises": [[e, x] for e, x in c.raises],
            "raises_unchanged": c.raises_unchanged, "clause": ob.get("clause")}


def _gen_worker(job):
    """One function per worker: generate its obligations and serialise them to SMT-LIB."""
    repo, name = job
    index, reg, recs = generate(repo, only=[name], exact=True)
    out = []
    for r in recs:
        obs = r["obligations"]
        attach_spec_axioms(reg, obs)
        ser = []
        for ob in obs:
            ser.append({
                "name": ob.name, "props": list(ob.props), "loc": ob.loc, "function": ob.function,
                "kind": ob.kind, "clause": ob.clause, "path": ob.path_id,
                "trivial": bool(getattr(ob, "trivial", False)),
                "vacuous": bool(getattr(ob, "vacuous", False)),
                "uses_specs": list(getattr(ob, "uses_specs", []) or []),
                "inputs": _describe_inputs(ob.inputs),
                "n_axioms": getattr(ob, "n_axioms", 0),
                "smt2": None if (getattr(ob, "trivial", False) or getattr(ob, "vacuous", False))
                else solve.to_smt2(ob.pc, ob.goal)})
        covers = []
        for site, pc in r["covers"]:
            if not (site.startswith("yield") or site.startswith("return") or site == "end"
                    or site.endswith("back_edge")):
                continue      # vacuity is about reaching yields / returns / back edges
            sv = z3.Solver()
            for c in pc:
                sv.add(c)
            covers.append((site, sv.to_smt2()))
        out.append({"name": r["name"], "status": r["status"], "error": r["error"],
                    "npaths": r.get("npaths", 0), "gen_s": r["gen_s"], "feas": r.get("feas"),
                    "fi": None if r["fi"] is None else describe(r["fi"], index),
                    "props": list(r["contract"].props), "obligations": ser, "covers": covers})
    return out


def verify(repo="/repo", only=None, props=None, timeout_s=20, verbose=False, exact=False):
    """Generate (one process per function) and discharge (pooled) all obligations.
    Returns (recs, obligations, results, covers, solve_wall); everything is plain data."""
    import multiprocessing as mp
    reg = build_registry()
    names = []
    for name, c in reg.contracts.items():
        if c.assumed:
            continue
        if only and exact and name not in only:
            continue
        if only and not exact and not any(name.endswith(o) or o in name for o in only):
            continue
        names.append(name)
    jobs = [(repo, n) for n in names]
    if len(jobs) > 1:
        # spawn, not fork: the generator uses z3 in-process with per-query limits, whose timer threads
        # do not survive a fork (spurious `unknown` answers, i.e. load- and history-dependent paths)
        with mp.get_context("spawn").Pool(min(solve.NPROC, len(jobs))) as pool:
            parts = pool.map(_gen_worker, jobs, chunksize=1)
    else:
        parts = [_gen_worker(j) for j in jobs]
    recs = [r for part in parts for r in part]
    obligations = [o for r in recs for o in r["obligations"]]
    uses_cnt = any(o["uses_specs"] for o in obligations)
    lem = list(lemmas.obligations(reg)) if uses_cnt else []
    lem += lemmas.arith_obligations(reg)
    attach_spec_axioms(reg, lem)
    if lem:
        for ob in lem:
            obligations.append({"name": ob.name, "props": list(ob.props), "loc": ob.loc,
                                "function": "lemma", "kind": "lemma", "clause": ob.clause, "path": 0,
                                "trivial": False, "vacuous": False, "uses_specs": [],
                                "n_axioms": getattr(ob, "n_axioms", 0),
                                "smt2": solve.to_smt2(ob.pc, ob.goal)})
    t0 = time.time()
    res = solve.discharge_texts(obligations, timeout_s=timeout_s)
    solve_wall = time.time() - t0
    cov_keys, cov_texts = [], []
    for r in recs:
        for site, text in r["covers"]:
            cov_keys.append((r["name"], site))
            cov_texts.append(text)
    cov = solve.check_sat_texts(cov_texts, timeout_s=1.5)
    covers = {}
    for (fn, site), status in zip(cov_keys, cov):
        key = "%s#%s" % (fn, site)
        # a site is reachable if some path to it is satisfiable, proved unreachable only if
        # every path is unsat; anything else is undecided
        rank = {"sat": 2, "unsat": 0}
        prev = covers.get(key)
        if prev is None or rank.get(status, 1) > rank.get(prev, 1):
            covers[key] = status
    return reg, recs, obligations, res, covers, solve_wall


def summarize(reg, recs, obligations, res, covers, props=None, ledger=None):
    """Obligation list in the format vcheck/cli.py expects."""
    out = []
    functions = []
    engine_error = None
    for r in recs:
        if r["fi"] is not None:
            d = dict(r["fi"])
            d["status"] = r["status"]
            d["paths"] = r["npaths"]
            d["obligations"] = len(r["obligations"])
            d["props"] = r["props"]
            functions.append(d)
        if r["status"] == "anchor_error":
            out.append({"name": r["name"] + "#anchor", "props": r["props"], "status": "anchor_error",
                        "note": r["error"], "time_s": 0.0, "function": r["name"],
                        "clause": "sidecar anchors match the source"})
        elif r["status"] == "unsupported":
            out.append({"name": r["name"] + "#unsupported", "props": r["props"], "status": "unknown",
                        "note": "not under vc: " + r["error"], "time_s": 0.0, "function": r["name"],
                        "clause": "function within the verified subset"})
        elif r["status"] == "engine_error":
            engine_error = "%s: %s" % (r["name"], r["error"])
    for ob, rs in zip(obligations, res):
        status = {"unsat": "discharged", "sat": "failed", "unknown": "unknown",
                  "vacuous": "vacuous"}[rs["status"]]
        out.append({"name": ob["name"], "props": ob["props"], "status": status, "backend": rs["backend"],
                    "time_s": rs["time_s"], "model": rs["model"], "clause": ob["clause"], "loc": ob["loc"],
                    "function": ob["function"], "kind": ob["kind"], "path": ob["path"],
                    "inputs": ob.get("inputs", {}),
                    "solver_output": None if rs["status"] != "unknown" else json.dumps(rs["model"])})
    if props:
        out = [o for o in out if set(o["props"]) & set(props)]
        functions = [f for f in functions if set(f["props"]) & set(props) or
                     any(o["function"] == f["name"] for o in out)]
    dead = [k for k, v in covers.items() if v == "unsat"]
    return {"obligations": out, "functions": functions, "engine_error": engine_error,
            "covers": {"sites": len(covers), "reachable": sum(1 for v in covers.values() if v == "sat"),
                       "undecided": sum(1 for v in covers.values() if v not in ("sat", "unsat")),
                       "unreachable": dead, "status_by_site": dict(covers)},
            "assumptions": [], "delegated_to_bounded": []}


def ghost_tags(reg, c):
    """Property ids appearing in the assert labels of the ghost functions a contract hooks."""
    import ast as _ast
    hooks = c.hooks or {}
    mod = hooks.get("module")
    tags, seen = set(), set()
    todo = [v for k, v in hooks.items() if k.startswith("emit_") or k in ("stop", "init")]
    while todo:
        fn = todo.pop()
        if fn in seen:
            continue
        seen.add(fn)
        try:
            gi = reg.ghost_function(mod, fn)
        except EngineError:
            continue
        for sub in _ast.walk(gi.node):
            if isinstance(sub, _ast.Assert) and isinstance(sub.msg, _ast.Constant) and \
                    isinstance(sub.msg.value, str) and ":" in sub.msg.value:
                tags |= set(sub.msg.value.split(":")[0].split(","))
            elif isinstance(sub, _ast.Call) and isinstance(sub.func, _ast.Name):
                todo.append(sub.func.id)
    return tags


def functions_for(reg, prop):
    """Contracts that can carry obligations of a property."""
    names = []
    for name, c in reg.contracts.items():
        if c.assumed:
            continue
        tags = set(c.props) | ghost_tags(reg, c)
        for _, _, p in c.ensures:
            tags |= set(p or ())
        for v in (c.exc_props or {}).values():
            tags |= set(v or ())
        if prop in tags:
            names.append(name)
    return names


def unchecked_assumptions(reg, names=None):
    """Everything the discharged obligations rest on without checking it: assumed contracts, the
    preconditions under which each function in scope is verified (a caller outside the contracts is
    not checked against them), class invariants assumed for parameter objects, and the definitional
    facts of call-relative spec functions."""
    out = ["assumed contract: %s (%s)" % (n, c.note) for n, c in reg.contracts.items() if c.assumed]
    for n, c in reg.contracts.items():
        if c.assumed or (names is not None and n not in names):
            continue
        if c.requires:
            out.append("%s is verified under its preconditions (%s); callers outside the contracts are not "
                       "checked against them" % (n, "; ".join("%s: %s" % (l, e[:160]) for l, e in c.requires)))
        for l, e in getattr(c, "definitions", []):
            out.append("definition assumed in %s: %s: %s" % (n, l, e[:200]))
        if getattr(c, "implicit_guards", ()):
            out.append("%s is verified on the paths where it does not raise itself; implicit exceptions treated "
                       "as guards: %s" % (n, ", ".join(c.implicit_guards)))
        for pn, ty in c.params.items():
            if isinstance(ty, tuple) and ty[0] in ("obj", "objlist") and pn != "self" and reg.invariant_of(ty[1]):
                out.append("class invariant of %s assumed for parameter %s of %s (%s)" % (
                    ty[1], pn, n, ", ".join(l for l, _ in reg.invariant_of(ty[1]))))
    for cls in ("SchedOp",):
        if cls in reg.classes and reg.invariant_of(cls):
            out.append("shape of the operations handed to the Revolve-family iterator (contracts/shapes.py: %s) is "
                       "assumed; validated at run time on every schedule of the bounded boxes, and an obligation "
                       "at every construction site of revolve / disk_revolve / periodic_disk_revolve"
                       % ", ".join(l for l, _ in reg.invariant_of(cls)))
    return out


def run_property(prop, tier="quick", seed=0, repo="/repo"):
    timeout = 30 if tier == "quick" else 90
    reg0 = build_registry()
    names = functions_for(reg0, prop)
    fr = frame_obligations(repo, [prop])
    if not names:
        return {"obligations": fr, "functions": [], "no_vc_expected": not fr, "assumptions": [],
                "covers": {}}
    reg, recs, obligations, res, covers, wall = verify(repo=repo, only=names, timeout_s=timeout, exact=True)
    out = summarize(reg, recs, obligations, res, covers, props=[prop])
    out["obligations"] += fr
    out["assumptions"] = unchecked_assumptions(reg, names)
    out["solve_wall_s"] = round(wall, 2)
    for o in out["obligations"]:
        if o["status"] in ("failed", "unknown") and o.get("model"):
            o["replay_job"] = replay_job(reg, o, o["model"])
    engine_checks(out, tier, repo, names)
    return out


def frame_obligations(repo, props=None):
    from . import frames
    index = SourceIndex(repo)
    obs = frames.effect_scan(index) + frames.label_noninterference(index) + frames.cost_roles(index) + \
        frames.identity_comparisons(index)
    if props:
        obs = [o for o in obs if set(o["props"]) & set(props)]
    return obs


def engine_checks(out, tier, repo, names=None):
    """The generator itself is checked on every run (DESIGN.md 3.3): CPython cross-check always,
    mutation self-test on the thorough tier (restricted to mutants of the functions involved)."""
    from . import crosscheck, selftest
    try:
        res = crosscheck.run(repo, verbose=False)
        bad = [r for r in res if not r["agree"]]
        out["cross_check"] = {"concrete_runs": len(res), "agree_with_cpython": len(res) - len(bad),
                              "actions_compared": sum(r["actions"] for r in res),
                              "disagreements": [r["detail"] for r in bad][:3]}
        # the engine's stream differing from CPython's is an engine defect (exit 3); a ghost
        # assertion failing on a concrete run is a contract violation seen concretely, not an
        # engine defect: it is reported by the obligation / bounded layers
        broken = [r for r in bad if r["stream_differs"] and not r["ghost_failures"]]
        out["cross_check"]["ghost_failures_on_concrete_runs"] = [r["ghost_failures"] for r in bad
                                                                 if r["ghost_failures"]][:3]
        if broken and all(o["status"] == "discharged" for o in out["obligations"]):
            out["engine_error"] = "engine/CPython disagreement: %s" % broken[0]["detail"][:300]
    except Exception as exc:
        out["cross_check"] = {"error": repr(exc)[:300]}
    # the definitional axioms of the spec functions hold in the intended (exact-arithmetic) model
    try:
        from . import axiomcheck
        ax = axiomcheck.run(build_registry(), repo)
        out["axiom_model_check"] = ax
        if ax["failures"]:
            out["engine_error"] = "spec-function axiom does not hold in its intended model: %s" % ax["failures"][0][:300]
    except Exception as exc:
        out["axiom_model_check"] = {"error": repr(exc)[:300]}
        out["engine_error"] = "axiom model check crashed: %r" % (exc,)
    if tier == "thorough":
        try:
            res = selftest.run(verbose=False, only_functions=names)
            surv = [r for r in res if r[1] == "SURVIVED"]
            out["mutation_selftest"] = {"mutants": len(res),
                                        "killed": sum(1 for r in res if r[1].startswith("killed")),
                                        "survived": [r[0] for r in surv]}
            if surv:
                out["engine_error"] = "mutation self-test: mutants survived: %s" % [r[0] for r in surv]
        except Exception as exc:
            out["mutation_selftest"] = {"error": repr(exc)[:300]}


def run_all(tier="quick", seed=0, repo="/repo"):
    """One VC run for every property (used by `check all` and by the ledger generator)."""
    timeout = 30 if tier == "quick" else 90
    reg, recs, obligations, res, covers, wall = verify(repo=repo, timeout_s=timeout)
    out = summarize(reg, recs, obligations, res, covers)
    out["obligations"] += frame_obligations(repo)
    out["assumptions"] = unchecked_assumptions(reg, None)
    out["solve_wall_s"] = round(wall, 2)
    for o in out["obligations"]:
        if o["status"] in ("failed", "unknown") and o.get("model"):
            o["replay_job"] = replay_job(reg, o, o["model"])
    engine_checks(out, "quick", repo)
    return out


def split_by_property(full, prop):
    out = dict(full)
    out["obligations"] = [o for o in full["obligations"] if prop in o["props"]]
    names = set(o["function"] for o in out["obligations"])
    out["functions"] = [f for f in full["functions"] if f["name"] in names or prop in f.get("props", [])]
    if not out["obligations"]:
        out["no_vc_expected"] = True
    return out


def replay(rp, repo="/repo"):
    return 0


def main(argv):
    import argparse
    ap = argparse.ArgumentParser()
    ap.add_argument("--only", nargs="*")
    ap.add_argument("--props", nargs="*")
    ap.add_argument("--repo", default="/repo")
    ap.add_argument("--timeout", type=float, default=20)
    ap.add_argument("-v", action="store_true")
    a = ap.parse_args(argv)
    t0 = time.time()
    reg, recs, obligations, res, covers, wall = verify(a.repo, a.only, a.props, a.timeout)
    for r in recs:
        print("%-70s %-12s paths=%-4s obligations=%-4d gen=%.1fs %s" % (
            r["name"], r["status"], r["npaths"], len(r["obligations"]), r["gen_s"],
            (r["error"] or "")[:300]) + (" feas-retries=%s" % (r.get("feas"),) if r.get("feas") and r["feas"][0] else ""))
    bad = 0
    for ob, rs in zip(obligations, res):
        if a.props and not (set(ob["props"]) & set(a.props)):
            continue
        if rs["status"] != "unsat" or a.v:
            print("  %-8s %-90s %5.2fs %s %s" % (rs["status"], ob["name"], rs["time_s"], ob["loc"],
                                                 "" if rs["status"] == "unsat" else (ob["clause"] or "")))
            if rs["status"] == "sat":
                print("           model:", {k: v for k, v in (rs["model"] or {}).items()
                                            if not k.startswith("k!")})
        if rs["status"] != "unsat":
            bad += 1
    dead = [k for k, v in covers.items() if v == "unsat"]
    und = [k for k, v in covers.items() if v not in ("sat", "unsat")]
    print("obligations=%d discharged=%d not=%d  cover sites=%d unreachable=%s undecided=%d  wall=%.1fs (solve %.1fs)" % (
        len(obligations), len(obligations) - bad, bad, len(covers), dead, len(und), time.time() - t0, wall))
    return 0 if bad == 0 else 1


if __name__ == "__main__":
    sys.exit(main(sys.argv[1:]))
