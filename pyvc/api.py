"""Public entry points of the VC engine (placeholder until the engine lands)."""


def run_property(prop, tier="quick", seed=0, repo="/repo"):
    return {"obligations": [], "functions": [], "no_vc_expected": True, "assumptions": []}


def replay(rp, repo="/repo"):
    return 0
