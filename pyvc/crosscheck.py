"""CPython cross-check of the engine (DESIGN.md 3.3): the iterators under vc are executed by
the engine on *concrete* inputs (loops unrolled, callees executed, ghost monitor evaluated) and
the emitted action stream must equal the stream CPython produces for the same object.  A
disagreement is an engine defect (exit 3), never a verdict about the repository."""
import json
import os
import subprocess
import sys
import time

import z3

from . import api
from .engine import Frame, State
from .source import SourceIndex
from .values import EnumV, Obj, ObjList, SymList, STORAGE_CODES, EngineError, Unsupported
from .verifier import Verifier, StopConcrete

VERIF = os.path.dirname(os.path.dirname(os.path.abspath(__file__)))
ITER = {"SingleMemory": "basic_schedules.SingleMemoryStorageSchedule._iterator",
        "SingleDisk": "basic_schedules.SingleDiskStorageSchedule._iterator",
        "NoneSchedule": "basic_schedules.NoneCheckpointSchedule._iterator",
        "Multistage": "multistage.MultistageCheckpointSchedule._iterator",
        "Mixed": "mixed.MixedCheckpointSchedule._iterator",
        "TwoLevel": "twolevel_binomial.TwoLevelCheckpointSchedule._iterator",
        "HRevolve": "hrevolve.RevolveCheckpointSchedule._iterator",
        "DiskRevolve": "hrevolve.RevolveCheckpointSchedule._iterator",
        "PeriodicDiskRevolve": "hrevolve.RevolveCheckpointSchedule._iterator",
        "Revolve": "hrevolve.RevolveCheckpointSchedule._iterator"}

SPECS = [
    ["SingleMemory", [], [], 4], ["SingleDisk", [], [["move_data", True]], 3],
    ["SingleDisk", [], [["move_data", False]], 3], ["NoneSchedule", [], [], 5],
    ["Multistage", [7, 2, 0], [["trajectory", "maximum"]], 7],
    ["Multistage", [9, 1, 2], [["trajectory", "revolve"]], 9],
    ["Multistage", [12, 0, 3], [["trajectory", "maximum"]], 12],
    ["Multistage", [1, 0, 0], [], 1], ["Multistage", [2, 1, 1], [], 2],
    ["Mixed", [8, 2], [["storage", "RAM"]], 8], ["Mixed", [11, 3], [["storage", "DISK"]], 11],
    ["Mixed", [1, 0], [], 1], ["Mixed", [4, 6], [], 4],
    ["TwoLevel", [3, 1], [["binomial_storage", "RAM"]], 7],
    ["TwoLevel", [4, 2], [["binomial_storage", "DISK"], ["binomial_trajectory", "revolve"]], 10],
    ["TwoLevel", [1, 0], [], 3], ["TwoLevel", [5, 0], [["binomial_storage", "RAM"]], 5],
    ["HRevolve", [6, 2, 1], [], 6], ["HRevolve", [7, 1, 2, 1, 1, 5, 0], [], 7], ["DiskRevolve", [7, 2], [], 7],
    ["Revolve", [6, 2], [], 6], ["PeriodicDiskRevolve", [9, 1], [], 9],
]


def native(specs, repo, passes=2):
    env = dict(os.environ)
    env["PYTHONPATH"] = repo + os.pathsep + VERIF
    p = subprocess.run(["/venv/bin/python", "-m", "rtc.main", "fields", "--spec", json.dumps(specs),
                        "--seed", str(passes)], cwd=VERIF, env=env, capture_output=True, text=True)
    if p.returncode != 0:
        raise EngineError("native side failed: " + p.stderr[-500:])
    return json.loads(p.stdout)


def to_value(v, eng):
    if isinstance(v, dict) and "storage" in v:
        return EnumV("StorageType", STORAGE_CODES[v["storage"]])
    if isinstance(v, dict) and "storage_tuple" in v:
        lst = SymList([z3.K(z3.IntSort(), z3.IntVal(0))], 0, ["storage"], False)
        for name in v["storage_tuple"]:
            lst = eng.list_append(lst, EnumV("StorageType", STORAGE_CODES[name]), None, None)
        return SymList(lst.arrs, lst.length, lst.etypes, False, immutable=True)
    if isinstance(v, dict) and "str" in v:
        return EnumV("str", eng.reg.intern(v["str"]))
    if isinstance(v, dict) and "ops" in v:
        # the operation list of a Revolve-family schedule, field-wise
        ty = z3.K(z3.IntSort(), z3.IntVal(0))
        ip = z3.K(z3.IntSort(), z3.BoolVal(False))
        i0 = z3.K(z3.IntSort(), z3.IntVal(0))
        i1 = z3.K(z3.IntSort(), z3.IntVal(0))
        for k, (t, ix) in enumerate(v["ops"]):
            ty = z3.Store(ty, k, eng.reg.intern(t))
            pair = isinstance(ix, list)
            ip = z3.Store(ip, k, pair)
            i0 = z3.Store(i0, k, ix[0] if pair else ix)
            i1 = z3.Store(i1, k, ix[1] if pair else 0)
        return ObjList("SchedOp", {"type": ty, "index.ip": ip, "index.i0": i0, "index.i1": i1},
                       len(v["ops"]), eng.reg.fields_of("SchedOp"))
    return v


def norm(x, reg):
    if isinstance(x, EnumV):
        if x.sort == "StorageType":
            return {0: "RAM", 1: "DISK", 2: "WORK", 3: "NONE"}[x.code]
        return reg.string_of(x.code)
    return x


_CUF = {}


def concrete_spec_functions(reg, repo):
    """Executable definitions of spec functions for the concrete runs: WADV is the recurrence that the
    real n_advance of the tree under test induces (as in pyvc.axiomcheck)."""
    if repo not in _CUF:
        from . import axiomcheck
        m = axiomcheck.real_n_advance_model(reg, repo)
        _CUF[repo] = {"WADV": m["WADV"]} if "WADV" in m else {}
    return _CUF[repo]


def run(repo="/repo", verbose=True):
    nat = native(SPECS, repo)
    index = SourceIndex(repo)
    reg = api.build_registry()
    results = []
    for spec, rec in zip(SPECS, nat):
        name = ITER[spec[0]]
        fi = index.get(name)
        c = reg.contracts[name]
        eng = Verifier(index, reg, fi, c, concrete=True)
        eng.cur_path = 0
        eng.site_override = None
        st = State()
        st.frames = [Frame({}, None, fi)]
        st.heap["self"] = {k: to_value(v, eng) for k, v in rec["fields"].items()}
        st.frames[0].vars["self"] = Obj("self", c.self_class)
        st.heap["g"] = {}
        st.frames[0].vars["g"] = Obj("g", "Ghost")
        eng.concrete_oplist = st.heap["self"].get("_schedule") if isinstance(
            st.heap["self"].get("_schedule"), ObjList) else None
        eng.concrete_uf = concrete_spec_functions(reg, repo)
        eng.concrete_nondet = [spec[3], 10 ** 6, 10 ** 6]
        eng.concrete_limit = len(rec["stream"])
        err = None
        t0 = time.time()
        try:
            outs = eng.inline_named(c.hooks["module"], c.hooks["init"], eng.hook_args(st, []), st, fi.node)
            try:
                eng.exec_block(fi.node.body, st)
            except StopConcrete:
                pass
        except (EngineError, Unsupported, z3.Z3Exception, RecursionError) as exc:
            err = "%s: %s" % (type(exc).__name__, exc)
        got = [[k] + [norm(a, reg) for a in args] for k, args in eng.yield_log]
        want = [list(a) for a in rec["stream"]]
        ok = err is None and got == want and not eng.concrete_failed
        detail = ""
        if not ok:
            i = 0
            while i < min(len(got), len(want)) and got[i] == want[i]:
                i += 1
            detail = "error=%s first difference at %d: engine=%s cpython=%s ghost_failures=%s" % (
                err, i, got[i:i + 1], want[i:i + 1], eng.concrete_failed[:3])
        skipped = err is not None and err.startswith("Unsupported")
        if skipped:
            ok = True       # the engine cannot run this source at all (outside the subset): nothing to compare
            detail = "skipped: " + err
        results.append({"spec": spec, "actions": len(want), "agree": ok, "detail": detail, "skipped": skipped,
                        "ghost_failures": [list(x) for x in eng.concrete_failed[:3]],
                        "stream_differs": (not skipped) and ((err is not None) or (got != want[:len(got)]) or
                                                              (not eng.concrete_failed and got != want)),
                        "time_s": round(time.time() - t0, 2)})
        if verbose:
            print("%-6s %-60s actions=%-4d %.1fs %s" % ("agree" if ok else "DIFFER", spec, len(want),
                                                       time.time() - t0, detail[:300]))
    return results


def main(argv):
    res = run(os.environ.get("VERIF_REPO", "/repo"))
    bad = [r for r in res if not r["agree"]]
    print("cross-check: %d concrete runs, %d agree with CPython, %d differ" % (len(res), len(res) - len(bad), len(bad)))
    return 3 if bad else 0


if __name__ == "__main__":
    sys.exit(main(sys.argv[1:]))
