"""Bounded model check of the definitional axioms of the spec functions.

The VC layer trusts each spec function only through its axioms (contract-language strings).  Here
every axiom is evaluated natively with the spec function interpreted by its exact-arithmetic
Python definition in contracts/specs.py - the same definitions the bounded layer validates
against an exhaustive search over executable schedules - on a finite grid of arguments.  This
(a) ties the SMT transcription to the validated definition and (b) shows that the axiom set has
a model on the grid (a contradictory set would let every obligation through).

Bounded: integers in [-1, NMAX], cost vectors from COSTS.  Never counted as a proof."""
import ast
import itertools
from fractions import Fraction

from contracts import specs

NMAX = 6
COSTS = [dict(uf=Fraction(1), ub=Fraction(1), wd=Fraction(2), rd=Fraction(2)),
         dict(uf=Fraction(3), ub=Fraction(1), wd=Fraction(2), rd=Fraction(5)),
         dict(uf=Fraction(1), ub=Fraction(2), wd=Fraction(1, 2), rd=Fraction(3)),
         dict(uf=Fraction(2), ub=Fraction(1), wd=Fraction(5), rd=Fraction(0)),
         dict(uf=Fraction(1), ub=Fraction(4), wd=Fraction(0), rd=Fraction(0))]
# names restricted to the domain in which the intended model is defined (the axioms are only
# ever instantiated there: every contract that mentions them requires it)
INT_RANGE = {"c0": (1, 4), "cm": (0, 4), "mx": (1, 5)}


class Undefined(Exception):
    """the intended model is not defined at these arguments"""


def _tables(uf, ub, wd=0, rd=0, _memo={}):
    key = (uf, ub, wd, rd)
    if key not in _memo:
        _memo[key] = specs.CostTables(uf, ub, wd, rd)
    return _memo[key]


def _val(v):
    if v is None:
        raise Undefined()
    return v


def m_GWX(n, s):
    try:
        return specs.gw_extra(n, s)
    except ValueError:
        raise Undefined()


def m_MIXOPT(n, s):
    try:
        return specs.mixed_opt(n, s)
    except ValueError:
        raise Undefined()


def m_OPT0(m, l, uf, ub):
    if l < 0:
        raise Undefined()
    return _val(_tables(uf, ub).opt0(m, l))


def m_OPTINF(cm, l, uf, ub, rd, wd):
    if l < 0 or cm < 0:
        raise Undefined()
    return _val(_tables(uf, ub, wd, rd).optinf(cm, l))


def m_ARGINF(cm, l, uf, ub, rd, wd):
    """a minimising q of the disk option (Skolem function of OPTINF.attained)"""
    best = None
    for q in range(0, l - 1):
        c = wd + (q + 1) * uf + m_OPTINF(cm, l - q - 1, uf, ub, rd, wd) + rd + m_OPT0(cm, q, uf, ub)
        if best is None or c < best[0]:
            best = (c, q)
    if best is None:
        raise Undefined()
    return best[1]


def m_HP0(l, m, uf, ub):
    if l < 0 or m < 0:
        raise Undefined()
    return _val(_tables(uf, ub).hoptp(0, l, m, (max(m, 1), 0)))


def m_HP1(l, m, uf, ub, wd, rd, c0):
    if l < 0 or m < 0 or c0 < 1:
        raise Undefined()
    return _val(_tables(uf, ub, wd, rd).hoptp(1, l, m, (c0, max(m, 0))))


def m_H1(l, m, uf, ub, wd, rd, c0):
    if l < 0 or m < 0 or c0 < 1:
        raise Undefined()
    return _val(_tables(uf, ub, wd, rd).hopt(1, l, m, (c0, max(m, 0))))


def m_BETA(x, y):
    if x < 0 or y < 0:
        raise Undefined()
    from math import comb
    return comb(x + y, x)


def m_PERIOD(cm, uf, rd, wd):
    if cm < 0 or uf <= 0:
        raise Undefined()
    return specs.period(cm, uf, wd, rd)


def m_PDRC(l, cm, mx, uf, ub, rd, wd):
    if l < 0 or mx < 1:
        raise Undefined()
    if l <= mx:
        return m_OPT0(cm, l, uf, ub) + (l + 1) * uf
    return wd + mx * uf + m_PDRC(l - mx, cm, mx, uf, ub, rd, wd) + rd + m_OPT0(cm, mx - 1, uf, ub) + mx * uf


def m_PDRS1(x, mx, uf, wd):
    if mx < 1 or x < 0 or x % mx:
        raise Undefined()
    return (x // mx) * (wd + mx * uf)


def m_PDRS2(x, cm, mx, uf, ub, rd):
    if mx < 1 or x < 0 or x % mx:
        raise Undefined()
    return (x // mx) * (rd + m_OPT0(cm, mx - 1, uf, ub) + mx * uf)


MODEL = {"GWX": m_GWX, "MIXOPT": m_MIXOPT, "OPT0": m_OPT0, "OPTINF": m_OPTINF, "ARGINF": m_ARGINF,
         "HP0": m_HP0, "HP1": m_HP1, "H1": m_H1, "BETA": m_BETA, "PERIOD": m_PERIOD, "PDRC": m_PDRC,
         "PDRS1": m_PDRS1, "PDRS2": m_PDRS2}
# spec functions with no independent definition: their axioms *are* the definition (CELLOK is a
# named abbreviation; CNT is proved from its two recursion equations in pyvc.lemmas) or they are
# deliberately uninterpreted (FNV/FNR: the wrapped function of cache_step; NEWGEN: generator identity)
NO_MODEL = ("CELLOK", "CNT", "FNV", "FNR", "NEWGEN")


class Lazy(ast.NodeTransformer):
    """implies(a, b) -> (not a) or b, so that b is only evaluated inside the guarded domain"""
    def visit_Call(self, node):
        self.generic_visit(node)
        if isinstance(node.func, ast.Name) and node.func.id == "implies":
            return ast.BoolOp(ast.Or(), [ast.UnaryOp(ast.Not(), node.args[0]), node.args[1]])
        return node


def _ints(name):
    lo, hi = INT_RANGE.get(name, (-1, NMAX))
    return range(lo, hi + 1)


def _forall_int(f):
    names = f.__code__.co_varnames[:f.__code__.co_argcount]
    return all(f(*t) for t in itertools.product(*[_ints(n) for n in names]))


def _exists_int(f):
    names = f.__code__.co_varnames[:f.__code__.co_argcount]
    return any(f(*t) for t in itertools.product(*[range(0, 4 * NMAX) for _ in names]))


def _forall_real(f):
    names = f.__code__.co_varnames[:f.__code__.co_argcount]
    if all(n in COSTS[0] for n in names):
        return all(f(*[c[n] for n in names]) for c in COSTS)
    grid = [Fraction(0), Fraction(1, 2), Fraction(1), Fraction(3)]
    return all(f(*t) for t in itertools.product(grid, repeat=len(names)))


def _forall(lo, hi, f):
    n = f.__code__.co_argcount
    return all(f(*t) for t in itertools.product(range(lo, hi), repeat=n))


def _exists(lo, hi, f):
    n = f.__code__.co_argcount
    return any(f(*t) for t in itertools.product(range(lo, hi), repeat=n))


class Counter:
    def __init__(self):
        self.instances = 0
        self.undefined = 0


def check_axiom(label, expr, counter):
    """-> None if the axiom holds on the grid, else a description of the failing instance."""
    tree = ast.fix_missing_locations(Lazy().visit(ast.parse(expr, mode="eval")))
    code = compile(tree, "<axiom %s>" % label, "eval")
    failing = []

    def outer_forall_int(f):
        names = f.__code__.co_varnames[:f.__code__.co_argcount]
        ok = True
        for t in itertools.product(*[_ints(n) for n in names]):
            try:
                r = f(*t)
            except Undefined:
                counter.undefined += 1
                continue
            counter.instances += 1
            if not r:
                failing.append(dict(zip(names, t)))
                ok = False
                if len(failing) >= 3:
                    break
        return ok

    def inner_forall_real(f):
        names = f.__code__.co_varnames[:f.__code__.co_argcount]
        rows = [[c[n] for n in names] for c in COSTS] if all(n in COSTS[0] for n in names) else \
            list(itertools.product([Fraction(0), Fraction(1, 2), Fraction(1), Fraction(3)], repeat=len(names)))
        for row in rows:
            if not f(*row):
                failing.append(dict(zip(names, [str(x) for x in row])))
                return False
        return True

    env = dict(MODEL)
    env.update({"forall_int": outer_forall_int, "forall_real": inner_forall_real, "exists_int": _exists_int,
                "forall": _forall, "exists": _exists, "min": min, "max": max})
    try:
        ok = eval(code, env)
    except Undefined:
        counter.undefined += 1
        return None
    if ok:
        return None
    return "axiom %s fails in the intended model at %s" % (label, failing[:3])


def real_n_advance_model(reg, repo):
    """WADV / n_advance interpreted by the *real* n_advance of the tree under test and the recurrence
    it induces (contracts/specs.py T_adv_factory); the trajectory argument is an interned string."""
    import os
    import sys
    repo = repo or os.environ.get("VERIF_REPO", "/repo")
    if repo not in sys.path:
        sys.path.insert(0, repo)
    try:
        from checkpoint_schedules.multistage import n_advance as real
    except Exception:
        return {}
    tables = {}

    def traj(t):
        name = reg.string_of(t) if isinstance(t, int) else None
        if name not in ("maximum", "revolve"):
            raise Undefined()
        return name

    def m_n_advance(n, u, t):
        try:
            return real(n, u, trajectory=traj(t))
        except (ValueError, AssertionError, ZeroDivisionError):
            raise Undefined()

    def m_WADV(n, u, t):
        name = traj(t)
        if n < 1 or (n >= 2 and u < 1):
            raise Undefined()
        if name not in tables:
            tables[name] = specs.T_adv_factory(real, name)
        try:
            return tables[name](n, u)
        except (ValueError, AssertionError, ZeroDivisionError, RecursionError):
            raise Undefined()
    return {"n_advance": m_n_advance, "WADV": m_WADV}


def run(reg, repo=None):
    """-> dict(axioms=.., instances=.., undefined=.., failures=[...], no_model=[...])"""
    counter = Counter()
    failures, checked, skipped = [], 0, []
    MODEL.update(real_n_advance_model(reg, repo))
    INT_RANGE["t"] = (min([reg.intern("maximum"), reg.intern("revolve")]) - 1,
                      max([reg.intern("maximum"), reg.intern("revolve")]) + 1)
    every = {}
    for fname, axioms in list(reg.spec_axiom_text.items()) + list(getattr(reg, "schema_only", {}).items()):
        every.setdefault(fname, [])
        every[fname] += list(axioms)
    for fname, axioms in every.items():
        if fname in NO_MODEL or fname not in MODEL:
            skipped.append(fname)
            continue
        for label, expr in axioms:
            checked += 1
            try:
                bad = check_axiom(label, expr, counter)
            except Exception as exc:     # an axiom the evaluator cannot run is reported, not skipped
                bad = "axiom %s could not be evaluated: %r" % (label, exc)
            if bad:
                failures.append(bad)
    return {"axioms": checked, "instances": counter.instances, "undefined_instances": counter.undefined,
            "failures": failures, "no_independent_model": sorted(set(skipped)),
            "grid": "integers -1..%d (%s), %d cost vectors" % (
                NMAX, ", ".join("%s in %d..%d" % (k, a, b) for k, (a, b) in INT_RANGE.items()), len(COSTS))}


if __name__ == "__main__":
    import json
    import sys
    from . import api
    out = run(api.build_registry())
    print(json.dumps(out, indent=1))
    sys.exit(1 if out["failures"] else 0)
