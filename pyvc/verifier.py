"""Statement-level symbolic execution: paths between cut points, loop contracts,
yield hooks (ghost executor), function entry/exit obligations."""
import ast
from fractions import Fraction

import z3

from .engine import (Engine, State, Frame, Signal, And, Or, Not, Implies, Ite, to_opt, EXC_PARENTS,
                     ACTION_KINDS)
from .values import (Unsupported, EngineError, is_z3, is_boolish, is_intish, simp, Z, ZB, EnumV, Opt,
                     SymList, EmptyList, SymSet, Obj, ActionV, ClassRef, FuncV, RangeV, ListLit, SymMap2, NdArray3, IndexV, Grid2, GridRow)
from .source import AnchorError, FuncInfo

MUTATORS = {"append", "pop", "add", "remove", "discard"}


class ConcreteRaise(Exception):
    """Cross-check mode: an executed callee raised."""


class StopConcrete(Exception):
    """Cross-check mode: enough actions have been produced."""


class Verifier(Engine):

    # ------------------------------------------------------------------ entry / exit
    def run(self):
        """Verify self.fi against self.contract; fills self.obligations."""
        c = self.contract
        st = State()
        st.frames = [Frame({}, None, self.fi)]
        self.cur_path = next(self.path_id)
        self.site_override = None
        self.setup_entry(st)
        results = self.exec_block(self.fi.node.body, st)
        for (s, sig) in results:
            self.finish_path(s, sig)
        return self.obligations

    def check_hint_anchors(self):
        """Every hint of the sidecar must be anchored at a site the source still has (an assignment to
        that name with that ordinal, a store, a return).  A hint that no longer applies - a renamed
        local, a removed statement - would silently turn proved obligations into undecided ones;
        it is reported as an anchoring error (undecided), never as a violation."""
        if self.concrete:
            return
        sites = set(self.fi.sites.values())
        assigned = {}
        for lab in sites:
            if lab.startswith("assign[") and ":" in lab:
                k, name = lab[len("assign["):].split("]:", 1)
                assigned.setdefault(name, set()).add(int(k))
        for sub in ast.walk(self.fi.node):
            if isinstance(sub, ast.AugAssign) and isinstance(sub.target, ast.Name):
                assigned.setdefault(sub.target.id, set())
        for key in self.contract.hints:
            base, _, rest = key.partition("[")
            if base == "return":
                if rest and ("return[" + rest) not in sites:
                    raise AnchorError("%s: hint anchored at %s, which the source does not have" % (self.contract.name, key))
                continue
            if base == "store":
                if key not in sites:
                    raise AnchorError("%s: hint anchored at %s, which the source does not have" % (self.contract.name, key))
                continue
            if base not in assigned:
                raise AnchorError("%s: hint anchored at an assignment to `%s`, which the source does not have"
                                  % (self.contract.name, base))
            if rest and int(rest.rstrip("]")) not in assigned[base]:
                raise AnchorError("%s: hint anchored at assignment %s of `%s`, which the source does not have"
                                  % (self.contract.name, rest.rstrip("]"), base))

    def setup_entry(self, st):
        c = self.contract
        self.check_hint_anchors()
        args = self.fi.node.args
        names = [a.arg for a in args.args] + [a.arg for a in args.kwonlyargs]
        if args.kwarg is not None:
            names.append(args.kwarg.arg)
        for nm in names:
            if nm == "self":
                continue
            if nm not in c.params:
                raise AnchorError("%s: parameter %s has no declared type in the sidecar" % (c.name, nm))
        for nm in c.params:
            if nm != "self" and nm not in names:
                raise AnchorError("%s: sidecar declares parameter %s that the function does not have"
                                  % (c.name, nm))
        for nm in names:
            ty = ("obj", c.self_class) if nm == "self" else c.params[nm]
            if isinstance(ty, tuple) and ty[0] == "obj":
                cls = ty[1]
                st.heap[nm] = {}
                for fld, fty in self.reg.fields_of(cls).items():
                    if nm == "self" and c.short == "__init__":
                        continue    # a constructor starts from an object without fields
                    opt = False
                    if isinstance(fty, str) and fty.startswith("?"):
                        fty = fty[1:]
                        opt = True
                    v, cs = self.fresh(fty, "%s.%s" % (nm, fld))
                    st.heap[nm][fld] = v
                    self.inputs["%s.%s" % (nm, fld)] = v
                    if opt:
                        p = z3.Bool("%s.?%s!%d" % (nm, fld, next(self.fresh_id)))
                        st.heap[nm]["?" + fld] = p
                        self.inputs["%s.?%s" % (nm, fld)] = p
                    for x in cs:
                        st.assume(x)
                st.frames[0].vars[nm] = Obj(nm, cls)
            else:
                v, cs = self.fresh(ty, nm)
                st.frames[0].vars[nm] = v
                self.inputs[nm] = v
                for x in cs:
                    st.assume(x)
                for oid, fields in self._pending_objects:      # objects reachable from parameters
                    st.heap[oid] = fields
                self._pending_objects = []
        # free variables of a nested function (closure cells), typed by the sidecar
        for nm, ty in getattr(c, "closure", {}).items():
            v, cs = self.fresh(ty, nm)
            st.frames[0].vars[nm] = v
            self.inputs[nm] = v
            for x in cs:
                st.assume(x)
        # ghost state
        if c.hooks is not None:
            st.heap["g"] = {}
            st.frames[0].vars["g"] = Obj("g", "Ghost")
        # class invariant + requires are assumed
        if c.self_class and c.short != "__init__":
            for label, expr in self.reg.invariant_of(c.self_class):
                st.assume(self.ev_spec(expr, st))
        for label, expr in c.requires:
            st.assume(self.ev_spec(expr, st))
        for label, expr in c.definitions:
            st.assume(self.ev_spec(expr, st))
        for label, expr in self.reg.axioms:
            st.assume(self.ev_spec(expr, st))
        self.normalize_opts(st)
        st.old_heap = {k: dict(v) for k, v in st.heap.items()}
        st.old_vars = {k: v for k, v in st.frames[0].vars.items()}
        self.entry_pc = list(st.pc)
        if not self.feasible(st):
            self.obligations.append(self.vacuous("precondition_satisfiable", st))
        if c.hooks is not None and c.hooks.get("init"):
            outs = self.inline_named(c.hooks["module"], c.hooks["init"], self.hook_args(st, []), st,
                                     self.fi.node)
            if len(outs) != 1 or outs[0][1][0] not in (Signal.NORMAL, Signal.RETURN):
                raise EngineError("ghost init must be straight-line")

    def normalize_opts(self, st):
        """An optional field that the path condition forces to be non-None (resp. None) is
        replaced by its plain value (resp. None): keeps definedness obligations off the proof."""
        for oid, fields in st.heap.items():
            for fld, v in list(fields.items()):
                if isinstance(v, Opt) and is_z3(v.isnone):
                    t, f = self.decide(st, v.isnone)
                    if not t:
                        fields[fld] = v.val
                    elif not f:
                        fields[fld] = None

    def vacuous(self, label, st):
        from .engine import Obligation
        ob = Obligation("%s#entry:%s" % (self.fi.name, label), self.contract.props, [], z3.BoolVal(True),
                        "%s:%d" % (self.fi.path, self.fi.lines[0]), self.fi.name, "vacuity", label, 0)
        ob.vacuous = True
        return ob

    def hook_args(self, st, args):
        selfv, _ = st.lookup("self")
        g, _ = st.lookup("g")
        return [selfv, g] + list(args)

    def finish_path(self, st, sig):
        c = self.contract
        kind = sig[0]
        node = sig[2] if len(sig) > 2 else self.fi.node
        if kind == Signal.STOP:
            return
        self.npaths += 1
        if kind in (Signal.NORMAL, Signal.RETURN):
            res = sig[1] if kind == Signal.RETURN else None
            site = self.fi.site(node, "return") if kind == Signal.RETURN else "end"
            self.cover(st, site)
            # must-raise: a declared exception condition holds yet the function returned
            old = self.old_state(st)
            for exc, expr in c.raises:
                cond = self.ev_spec(expr, old)
                self.oblige(st, Not(cond), "returns_only_if_not:%s" % exc, node, site=site,
                            props=c.exc_props.get(exc), kind="post",
                            clause="%s must be raised when %s" % (exc, expr))
            st.frames[0].vars["result"] = res
            post = st
            if self.fi.is_generator() and c.yields_range is not None:
                yf = [t for t in st.trace if t[0] == "yieldfrom"]
                lo, hi, step = c.yields_range
                ok = len(yf) == 1
                self.oblige(st, ok, "enumerates:exactly_one_range", node, site=site, kind="post",
                            clause="the generator is one `yield from range(...)`")
                if ok:
                    self.oblige(st, self.equal(yf[0][1], self.ev(self.reg.parse_expr(lo), self.spec_view(st))),
                                "enumerates:first_step", node, site=site, kind="post", clause="range starts at " + lo)
                    self.oblige(st, self.equal(yf[0][2], self.ev(self.reg.parse_expr(hi), self.spec_view(st))),
                                "enumerates:bound", node, site=site, kind="post", clause="range stops before " + hi)
                    self.oblige(st, self.equal(yf[0][3], step), "enumerates:direction", node, site=site,
                                kind="post", clause="range step is %d" % step)
            if self.fi.is_generator():
                for label, expr, props in c.stop_ensures:
                    self.oblige(st, self.ev_spec(expr, post), "stop:%s" % label, node, site=site,
                                props=props, kind="post", clause=expr)
                if c.hooks is not None and c.hooks.get("stop"):
                    self.site_override = "stop"
                    outs = self.inline_named(c.hooks["module"], c.hooks["stop"], self.hook_args(st, []),
                                             st, node)
                    self.site_override = None
            else:
                for label, expr, props in c.ensures:
                    self.oblige(st, self.ev_spec(expr, post), "post:%s" % label, node, site=site,
                                props=props, kind="post", clause=expr)
            return
        if kind == Signal.RAISE:
            exc = sig[1]
            site = self.fi.site(node, "raise")
            self.cover(st, site)
            declared = [(e, x) for e, x in c.raises if e == exc or EXC_PARENTS.get(exc) == e]
            old = self.old_state(st)
            if not declared and not c.total:
                # safety modulo the function's own guards: this path is dropped (and listed)
                self.delegated.append("%s#%s:%s not proved unreachable (bounded)" % (self.fi.name, site, exc))
                return
            if not declared:
                self.oblige(st, False, "unreachable:%s" % exc, node, site=site,
                            props=c.exc_props.get("*"), kind="noraise",
                            clause="no %s in the valid domain" % exc)
                return
            cond = Or(*[self.ev_spec(x, old) for _, x in declared])
            self.oblige(st, cond, "raises_only_if:%s" % exc, node, site=site,
                        props=c.exc_props.get(exc), kind="post",
                        clause="%s only when %s" % (exc, " or ".join(x for _, x in declared)))
            if c.raises_unchanged and "self" in st.heap and c.short != "__init__":
                for fld, v in st.heap["self"].items():
                    if fld.startswith("?"):
                        continue
                    ov = st.old_heap["self"].get(fld)
                    if ov is None and fld not in st.old_heap["self"]:
                        self.oblige(st, False, "rejection_assigns_nothing:%s" % fld, node, site=site,
                                    kind="frame")
                        continue
                    if v is ov:
                        continue
                    try:
                        same = self.equal(v, ov)
                    except Unsupported:
                        continue
                    self.oblige(st, same, "rejection_assigns_nothing:%s" % fld, node, site=site, kind="frame",
                                clause="on rejection self.%s is unchanged" % fld)
            return
        if kind in (Signal.BREAK, Signal.CONTINUE):
            raise EngineError("break/continue outside a loop")

    def old_state(self, st):
        old = State()
        old.heap = {k: dict(v) for k, v in st.old_heap.items()}
        old.frames = [Frame(dict(st.old_vars), None, self.fi)]
        old.pc = st.pc
        old.spec_mode = 1
        return old

    # ------------------------------------------------------------------ blocks
    def exec_block(self, stmts, st):
        live = [st]
        done = []
        for s in stmts:
            nxt = []
            for x in live:
                for (y, sig) in self.exec_stmt(s, x):
                    if sig[0] == Signal.NORMAL:
                        nxt.append(y)
                    else:
                        done.append((y, sig))
            live = nxt
            if not live:
                break
            if len(live) + len(done) > self.max_paths:
                raise Unsupported("path explosion in %s" % self.fi.name)
        return [(x, (Signal.NORMAL, None)) for x in live] + done

    def exec_stmt(self, s, st):
        m = getattr(self, "st_" + type(s).__name__, None)
        if m is None:
            raise Unsupported("statement %s at line %d" % (type(s).__name__, s.lineno))
        st.pending_raises = []
        try:
            out = m(s, st)
        except ConcreteRaise as exc:
            st.pending_raises = None
            return [(st, (Signal.RAISE, str(exc), s))]
        except Unsupported:
            if self.concrete or not self.strongly_infeasible(st):
                raise
            return []       # the path that reaches the unsupported construct does not exist
        final = []
        for (y, sig) in out:
            if y.pending_raises:
                final.extend(self.flush(y))
            y.pending_raises = None
            final.append((y, sig))
        return final

    def flush(self, st):
        """Declared exceptions of callees evaluated so far in this statement: fork one
        raising path per feasible clause; `st` continues as the no-exception path."""
        pend = st.pending_raises or []
        st.pending_raises = []
        return [(r, (Signal.RAISE, exc, node)) for (r, exc, node) in pend]

    # simple statements ------------------------------------------------------
    def st_Pass(self, s, st):
        return [(st, (Signal.NORMAL, None))]

    def st_Break(self, s, st):
        return [(st, (Signal.BREAK, None))]

    def st_Continue(self, s, st):
        return [(st, (Signal.CONTINUE, None))]

    def st_Nonlocal(self, s, st):
        return [(st, (Signal.NORMAL, None))]

    def st_Global(self, s, st):
        raise Unsupported("global statement")

    def st_FunctionDef(self, s, st):
        qual = self.fi.qualname + ".<locals>." + s.name
        st.assign(s.name, FuncV(s, len(st.frames) - 1, qual))
        return [(st, (Signal.NORMAL, None))]

    def st_Delete(self, s, st):
        for t in s.targets:
            if isinstance(t, ast.Name):
                st.frames[-1].vars.pop(t.id, None)
            else:
                raise Unsupported("del of non-name")
        return [(st, (Signal.NORMAL, None))]

    def return_hints(self, s, st):
        if self.concrete or st.frames[-1].func is not self.fi:
            return
        keys = ["return", self.fi.site(s, "return")]       # all returns, then this one: "return[k]"
        for key in keys:
            for hint in self.contract.hints.get(key, []):
                if hint[0] == "use":
                    try:
                        self.use_lemma(hint[1], hint[2], st)
                    except Unsupported:
                        pass
                    continue
                label, expr = hint
                try:
                    cond = self.ev_spec(expr, st)
                except Unsupported:
                    continue          # mentions a local that does not exist on this path
                self.oblige(st, cond, "hint:%s" % label, s, kind="hint", clause=expr)

    def st_Return(self, s, st):
        self.return_hints(s, st)
        if s.value is not None and self.is_closure_call(s.value, st):
            outs = []
            for (y, sig) in self.inline_call(s.value, st):
                if sig[0] in (Signal.RETURN, Signal.NORMAL):
                    outs.append((y, (Signal.RETURN, sig[1] if sig[0] == Signal.RETURN else None, s)))
                else:
                    outs.append((y, sig))
            return outs
        v = self.ev(s.value, st) if s.value is not None else None
        return [(st, (Signal.RETURN, v, s))]

    def st_Raise(self, s, st):
        exc = s.exc
        if isinstance(exc, ast.Call):
            exc = exc.func
        if not isinstance(exc, ast.Name):
            raise Unsupported("raise of a computed exception")
        return [(st, (Signal.RAISE, exc.id, s))]

    def st_Assert(self, s, st):
        cond = self.truth(self.ev(s.test, st), st, s)
        if self.site_override is None and any(e == "AssertionError" for e, _ in self.contract.raises) \
                and (st.frames[-1].func is self.fi or st.frames[-1].func is None):
            # the contract declares when the assertion may fail: treat it as a conditional raise
            outs = self.flush(st)
            t, f = self.decide(st, cond)
            if f:
                r = st.fork() if t else st
                r.assume(Not(cond))
                outs.append((r, (Signal.RAISE, "AssertionError", s)))
            if t:
                st.assume(cond)
                outs.append((st, (Signal.NORMAL, None)))
            return outs
        label = "assert"
        props = None
        if s.msg is not None and isinstance(s.msg, ast.Constant) and isinstance(s.msg.value, str):
            msg = s.msg.value
            if ":" in msg and msg.split(":")[0].startswith("C"):
                props = tuple(msg.split(":")[0].split(","))
                label = msg.split(":", 1)[1]
            else:
                label = msg
        site = self.site_override
        self.oblige(st, cond, label, s, props=props, kind="assert" if site is None else "exec",
                    clause=ast.unparse(s.test), site=site)
        return [(st, (Signal.NORMAL, None))]

    def st_Expr(self, s, st):
        v = s.value
        if isinstance(v, ast.Yield):
            return self.do_yield(v, st)
        if isinstance(v, ast.YieldFrom):
            it = self.ev(v.value, st)
            if not isinstance(it, RangeV):
                raise Unsupported("yield from a non-range")
            st.trace.append(("yieldfrom", it.lo, it.hi, it.step))
            self.cover(st, (st.frames[-1].func or self.fi).site(v, "yieldfrom"))
            return [(st, (Signal.NORMAL, None))]
        if isinstance(v, ast.Constant):
            return [(st, (Signal.NORMAL, None))]      # docstring
        if self.is_closure_call(v, st):
            outs = []
            for (y, sig) in self.inline_call(v, st):
                if sig[0] == Signal.RETURN:
                    sig = (Signal.NORMAL, None)
                outs.append((y, sig))
            return outs
        self.ev(v, st)
        return [(st, (Signal.NORMAL, None))]

    def st_Assign(self, s, st):
        if self.is_closure_call(s.value, st):
            outs = []
            for (y, sig) in self.inline_call(s.value, st):
                if sig[0] in (Signal.RETURN, Signal.NORMAL):
                    val = sig[1] if sig[0] == Signal.RETURN else None
                    for t in s.targets:
                        self.assign_target(t, val, y, s)
                    outs.append((y, (Signal.NORMAL, None)))
                else:
                    outs.append((y, sig))
            return outs
        self.last_min_witness = None
        val = self.ev(s.value, st)
        for t in s.targets:
            self.assign_target(t, val, st, s)
            if isinstance(t, ast.Name) and self.last_min_witness is not None:
                # x = min([...]): the index attaining the minimum is available to hints as x__argmin
                st.assign(t.id + "__argmin", self.last_min_witness)
            elif isinstance(t, ast.Subscript) and self.last_min_witness is not None and not self.concrete:
                st.assign("store__argmin", self.last_min_witness)      # table[...] = min([...])
            hint_keys = []
            if isinstance(t, ast.Subscript) and not self.concrete and st.frames[-1].func is self.fi:
                site = self.fi.sites.get(id(s), "")          # "store[k]"
                hint_keys = [site] if site in self.contract.hints else []
            if isinstance(t, ast.Name) and not self.concrete and st.frames[-1].func is self.fi:
                site = self.fi.sites.get(id(s), "")          # "assign[k]:name"
                k = site[len("assign"):site.index(":")] if site.startswith("assign[") else ""
                hint_keys = [key for key in (t.id, t.id + k) if key in self.contract.hints]
            for key in hint_keys:
                for hint in self.contract.hints[key]:
                    if hint[0] == "use":
                        try:
                            self.use_lemma(hint[1], hint[2], st)
                        except Unsupported:
                            pass      # an argument is not in scope at this assignment: no instance
                        continue
                    label, expr = hint
                    self.oblige(st, self.ev_spec(expr, st), "hint:%s" % label, s, kind="hint", clause=expr)
        return [(st, (Signal.NORMAL, None))]

    def st_AnnAssign(self, s, st):
        if s.value is None:
            return [(st, (Signal.NORMAL, None))]
        self.assign_target(s.target, self.ev(s.value, st), st, s)
        return [(st, (Signal.NORMAL, None))]

    def st_AugAssign(self, s, st):
        cur = self.ev(s.target, st)
        val = self.ev(s.value, st)
        self.assign_target(s.target, self.arith(s.op, cur, val, st, s), st, s)
        if isinstance(s.target, ast.Name) and s.target.id in self.contract.hints and not self.concrete \
                and st.frames[-1].func is self.fi:
            for hint in self.contract.hints[s.target.id]:
                if hint[0] == "use":
                    try:
                        self.use_lemma(hint[1], hint[2], st)
                    except Unsupported:
                        pass
                    continue
                label, expr = hint
                self.oblige(st, self.ev_spec(expr, st), "hint:%s" % label, s, kind="hint", clause=expr)
        return [(st, (Signal.NORMAL, None))]

    def use_lemma(self, name, arg_exprs, st):
        """Instantiate a separately proved arithmetic lemma at the current state."""
        vals = [self.ev(self.reg.parse_expr(a), self.spec_view(st)) for a in arg_exprs]
        if name in self.reg.axiom_instances:       # instance of a definitional axiom
            params, body = self.reg.axiom_instances[name]
            inst = State()
            inst.frames = [Frame(dict(zip(params, vals)), None, None)]
            inst.heap = st.heap
            inst.spec_mode = 1
            inst.pc = list(st.pc)
            st.assume(self.ev_spec(body, inst))
            return
        params, hyps, concl, _ = self.reg.arith_lemmas[name]
        inst = State()
        inst.frames = [Frame(dict(zip(params, vals)), None, None)]
        inst.heap = st.heap
        inst.spec_mode = 1
        self.uses_lemmas.add(name)
        hs = hyps if isinstance(hyps, (list, tuple)) else [hyps]
        inst.pc = list(st.pc)
        st.assume(self.ev_spec("implies(%s, %s)" % (" and ".join("(%s)" % h for h in hs), concl), inst))

    def typed_empty(self, ty):
        comps = ty[1]
        arrs = [z3.K(z3.IntSort(), self.default_of(c)) for c in comps]
        return SymList(arrs, 0, comps, tup=(len(comps) > 1 or (len(ty) > 2 and ty[2])))

    def assign_target(self, t, val, st, node):
        if isinstance(val, ListLit) and isinstance(t, ast.Name) and t.id in self.contract.locals and \
                isinstance(self.contract.locals[t.id], tuple) and self.contract.locals[t.id][0] == "list":
            val = self.to_symlist(val, st, node)      # a list the function goes on to mutate
        if isinstance(val, EmptyList):
            # an empty list literal takes the element type the sidecar declares for its variable
            if isinstance(t, ast.Name) and t.id in self.contract.locals and \
                    isinstance(self.contract.locals[t.id], tuple):
                val = self.typed_empty(self.contract.locals[t.id])
            elif isinstance(t, ast.Attribute) and isinstance(t.value, ast.Name) and t.value.id == "g":
                gt = (self.contract.hooks or {}).get("ghost_types", {})
                if t.attr in gt:
                    val = self.typed_empty(gt[t.attr])
        if isinstance(val, IndexV) and isinstance(t, ast.Name):
            # a single step: binding the name to a list instead would be a type confusion
            self.oblige(st, Not(val.ip), "index_is_a_single_step", node)
            val = val.i0
        if isinstance(t, ast.Name):
            declared_nonlocal = self.is_nonlocal(t.id, st)
            st.assign(t.id, val, nonlocal_ok=declared_nonlocal)
            return
        if isinstance(t, (ast.Tuple, ast.List)):
            if isinstance(val, tuple):
                if len(val) != len(t.elts):
                    self.oblige(st, False, "unpack_length", node)
                    return
                for e, v in zip(t.elts, val):
                    self.assign_target(e, v, st, node)
                return
            if isinstance(val, IndexV) and len(t.elts) == 2:
                self.oblige(st, val.ip, "index_is_a_pair", node)
                self.assign_target(t.elts[0], val.i0, st, node)
                self.assign_target(t.elts[1], val.i1, st, node)
                return
            raise Unsupported("unpacking of %s" % type(val).__name__)
        if isinstance(t, ast.Attribute):
            base = self.ev(t.value, st)
            if isinstance(base, Obj):
                self.setattr_(base, t.attr, val, st, node)
                return
            raise Unsupported("attribute store on %s" % type(base).__name__)
        if isinstance(t, ast.Subscript) and isinstance(self.ev(t.value, st), NdArray3):
            arr = self.ev(t.value, st)
            elts = t.slice.elts if isinstance(t.slice, ast.Tuple) else [t.slice]
            if len(elts) != 3:
                raise Unsupported("array store shape")
            full = [isinstance(e, ast.Slice) and e.lower is None and e.upper is None and e.step is None
                    for e in elts]
            comps = list(arr.comps)
            I64 = 2 ** 63
            if full[0] and full[1] and not full[2]:          # schedule[:, :, k] = c
                k = self.ev(elts[2], st)
                if not isinstance(k, int) or not is_intish(val):
                    raise Unsupported("array slice store")
                self.oblige(st, And(self.cmp(ast.GtE(), val, -I64), self.cmp(ast.Lt(), val, I64)),
                            "int64_no_overflow", node)
                comps[k] = z3.K(z3.IntSort(), z3.K(z3.IntSort(), Z(val)))
            elif not full[0] and not full[1] and full[2]:     # schedule[a, b, :] = (x, y, z)
                a = self.ev(elts[0], st)
                b = self.ev(elts[1], st)
                if not (isinstance(val, tuple) and len(val) == 3):
                    raise Unsupported("array row store of a non-triple")
                self.oblige(st, And(self.cmp(ast.GtE(), a, 0), self.cmp(ast.Lt(), a, arr.d0),
                                    self.cmp(ast.GtE(), b, 0), self.cmp(ast.Lt(), b, arr.d1)),
                            "array_index_in_bounds", node)
                for k in range(3):
                    self.oblige(st, And(self.cmp(ast.GtE(), val[k], -I64), self.cmp(ast.Lt(), val[k], I64)),
                                "int64_no_overflow", node)
                    row = z3.Store(z3.Select(comps[k], Z(a)), Z(b), Z(val[k]))
                    comps[k] = simp(z3.Store(comps[k], Z(a), row))
            else:
                raise Unsupported("array store pattern")
            self.store_target(t.value, NdArray3(comps, arr.d0, arr.d1), st, node)
            return
        if isinstance(t, ast.Subscript) and isinstance(t.value, ast.Subscript) and \
                isinstance(t.value.value, ast.Subscript):
            root = self.ev(t.value.value.value, st)
            if isinstance(root, tuple) and all(isinstance(x, Grid2) for x in root):
                k = self.ev(t.value.value.slice, st)
                if not isinstance(k, int) or not (0 <= k < len(root)):
                    raise Unsupported("table store with a symbolic level")
                g = root[k]
                l = self.ev(t.value.slice, st)
                m = self.ev(t.slice, st)
                self.oblige(st, And(self.cmp(ast.GtE(), l, 0), self.cmp(ast.Lt(), l, g.d0),
                                    self.cmp(ast.GtE(), m, 0), self.cmp(ast.Lt(), m, g.d1)),
                            "index_in_range", node)
                if not (is_intish(val) or is_z3(val) or isinstance(val, (int, Fraction))):
                    raise Unsupported("table store of %s" % type(val).__name__)
                from .values import ZR
                rowv = z3.Store(z3.Select(g.val, Z(l)), Z(m), ZR(val))
                rowi = z3.Store(z3.Select(g.inf, Z(l)), Z(m), z3.BoolVal(False))
                ng = Grid2(simp(z3.Store(g.inf, Z(l), rowi)), simp(z3.Store(g.val, Z(l), rowv)), g.d0, g.d1)
                self.store_target(t.value.value.value, tuple(ng if i == k else x for i, x in enumerate(root)),
                                  st, node)
                return
        if isinstance(t, ast.Subscript):
            base = self.ev(t.value, st)
            idx = self.ev(t.slice, st)
            if isinstance(base, SymMap2) and isinstance(idx, tuple) and len(idx) == 2:
                if not is_intish(val):
                    raise Unsupported("pair-keyed dict value")
                new = SymMap2(simp(z3.Store(base.present, Z(idx[0]), Z(idx[1]), z3.BoolVal(True))),
                              simp(z3.Store(base.val, Z(idx[0]), Z(idx[1]), Z(val))))
                self.store_target(t.value, new, st, node)
                return
            if isinstance(base, SymList) and not base.tup:
                self.oblige(st, And(self.cmp(ast.GtE(), idx, 0), self.cmp(ast.Lt(), idx, base.length)),
                            "store_index_in_range", node)
                arr = simp(z3.Store(base.arrs[0], Z(idx), self.elem_to_z3(val)))
                self.store_target(t.value, SymList([arr], base.length, base.etypes, False), st, node)
                return
            raise Unsupported("subscript store")
        raise Unsupported("assignment target %s" % type(t).__name__)

    def is_nonlocal(self, name, st):
        fn = st.frames[-1].func
        node = getattr(st.frames[-1], "node", None)
        decl = getattr(st.frames[-1], "nonlocals", ())
        return name in decl

    # control flow -------------------------------------------------------------
    def st_If(self, s, st):
        cond = self.truth(self.ev(s.test, st), st, s)
        outs = self.flush(st)
        t, f = self.decide(st, cond)
        if t and f:
            a = st.fork()
            a.assume(cond)
            b = st
            b.assume(Not(cond))
            self.cur_path = next(self.path_id)
            outs += self.exec_block(s.body, a)
            outs += self.exec_block(s.orelse, b) if s.orelse else [(b, (Signal.NORMAL, None))]
        elif t:
            st.assume(cond)
            outs += self.exec_block(s.body, st)
        elif f:
            st.assume(Not(cond))
            outs += self.exec_block(s.orelse, st) if s.orelse else [(st, (Signal.NORMAL, None))]
        return outs

    # loops ---------------------------------------------------------------------
    def modified_in(self, node, st):
        """Syntactic over-approximation of what a loop body may assign."""
        names, fields, has_yield = set(), set(), False
        todo = [node]
        seen_funcs = set()
        while todo:
            n = todo.pop()
            for sub in ast.walk(n):
                if isinstance(sub, (ast.Assign, ast.AugAssign, ast.AnnAssign, ast.For)):
                    tg = sub.targets if isinstance(sub, ast.Assign) else [sub.target]
                    for t in tg:
                        for e in ast.walk(t):
                            if isinstance(e, ast.Name) and isinstance(e.ctx, ast.Store):
                                names.add(e.id)
                            elif isinstance(e, ast.Attribute) and isinstance(e.ctx, ast.Store) \
                                    and isinstance(e.value, ast.Name):
                                fields.add((e.value.id, e.attr))
                            elif isinstance(e, ast.Subscript) and isinstance(e.ctx, ast.Store):
                                b = e.value
                                while isinstance(b, ast.Subscript):
                                    b = b.value
                                if isinstance(b, ast.Name):
                                    names.add(b.id)
                                elif isinstance(b, ast.Attribute) and isinstance(b.value, ast.Name):
                                    fields.add((b.value.id, b.attr))
                    if isinstance(sub, ast.For):
                        if isinstance(sub.target, ast.Name):
                            names.add("it_" + sub.target.id)
                elif isinstance(sub, ast.Delete):
                    pass
                elif isinstance(sub, ast.Call):
                    f = sub.func
                    if isinstance(f, ast.Attribute) and isinstance(f.value, ast.Subscript) and \
                            isinstance(f.value.value, ast.Name):
                        names.add(f.value.value.id)      # opt[m].append(x): a row of a list of objects
                    if isinstance(f, ast.Attribute) and f.attr in MUTATORS:
                        if isinstance(f.value, ast.Name):
                            names.add(f.value.id)
                        elif isinstance(f.value, ast.Attribute) and isinstance(f.value.value, ast.Name):
                            fields.add((f.value.value.id, f.value.attr))
                    elif isinstance(f, ast.Name):
                        v, _ = st.lookup(f.id)
                        if isinstance(v, FuncV) and id(v.node) not in seen_funcs:
                            seen_funcs.add(id(v.node))
                            todo.append(v.node)
                    elif isinstance(f, ast.Attribute) and isinstance(f.value, ast.Name) \
                            and f.value.id == "self":
                        c = self.reg.method_contract(self.contract.self_class, f.attr)
                        if c is not None and c.frame:
                            for fld in c.frame:
                                fields.add(("self", fld))
                elif isinstance(sub, (ast.Yield, ast.YieldFrom)):
                    has_yield = True
        return names, fields, has_yield

    def havoc(self, st, names, fields, has_yield, spec):
        for nm in sorted(names | set(spec.extra_modifies)):
            v, i = st.lookup(nm)
            if i is None:
                if nm in self.contract.locals and not nm.startswith("it_"):
                    # first bound inside the loop: at the head it holds a value of an earlier
                    # iteration (or is unbound - reading it then raises, a path we over-approximate)
                    nv, cs = self.fresh(self.contract.locals[nm], nm)
                    st.frames[-1].vars[nm] = nv
                    for x in cs:
                        st.assume(x)
                continue
            if isinstance(v, EmptyList) and nm in self.contract.locals:
                nv, cs = self.fresh(self.contract.locals[nm], nm)
            elif nm in self.contract.locals and not isinstance(v, (SymList, SymSet)):
                nv, cs = self.fresh(self.contract.locals[nm], nm)
            else:
                nv, cs = self.fresh_like(v, nm)
            st.frames[i].vars[nm] = nv
            for x in cs:
                st.assume(x)
            for oid, fl in self._pending_objects:      # a fresh object stands for "some object"
                st.heap[oid] = fl
            self._pending_objects = []
        flds = set(fields)
        if has_yield and "g" in st.heap:
            assigned = self.ghost_assigned()
            for k in st.heap["g"]:
                if k in assigned:       # ghost fields written only by init are constants
                    flds.add(("g", k))
            for k in (self.contract.hooks or {}).get("env_frame", ()):
                flds.add(("self", k))
        for (o, fld) in sorted(flds):
            if o not in st.heap or fld not in st.heap[o]:
                continue
            cur = st.heap[o][fld]
            gt = (self.contract.hooks or {}).get("ghost_types", {})
            if o == "g" and fld in gt and not isinstance(cur, (SymList, SymSet)):
                nv, cs = self.fresh(gt[fld], "g." + fld)
            else:
                nv, cs = self.fresh_like(cur, "%s.%s" % (o, fld))
            st.heap[o][fld] = nv
            for x in cs:
                st.assume(x)

    def ghost_assigned(self):
        """Ghost fields that some emit/stop hook (or a ghost function it calls) may assign."""
        if getattr(self, "_ghost_assigned", None) is not None:
            return self._ghost_assigned
        hooks = self.contract.hooks or {}
        mod = hooks.get("module")
        out = set()
        todo = [v for k, v in hooks.items() if k.startswith("emit_") or k == "stop"]
        seen = set()
        while todo:
            fn = todo.pop()
            if fn in seen:
                continue
            seen.add(fn)
            try:
                gi = self.reg.ghost_function(mod, fn)
            except EngineError:
                continue
            for sub in ast.walk(gi.node):
                tgt = []
                if isinstance(sub, ast.Assign):
                    tgt = sub.targets
                elif isinstance(sub, (ast.AugAssign, ast.AnnAssign)):
                    tgt = [sub.target]
                for t in tgt:
                    for e in ast.walk(t):
                        if isinstance(e, ast.Attribute) and isinstance(e.value, ast.Name) and e.value.id == "g":
                            out.add(e.attr)
                if isinstance(sub, ast.Call):
                    f = sub.func
                    if isinstance(f, ast.Attribute) and f.attr in MUTATORS and \
                            isinstance(f.value, ast.Attribute) and isinstance(f.value.value, ast.Name) \
                            and f.value.value.id == "g":
                        out.add(f.value.attr)
                    elif isinstance(f, ast.Name):
                        todo.append(f.id)
        self._ghost_assigned = out
        return out

    def loop_ordinal(self, node, st):
        fi = st.frames[-1].func or self.fi
        if fi is not self.fi:
            raise Unsupported("loop inside an inlined closure")
        return fi.loops.index(node)

    def st_While(self, s, st):
        if s.orelse:
            raise Unsupported("while-else")
        return self.loop(s, st, test_node=s.test, body=s.body, fingerprint=ast.unparse(s.test))

    def st_For(self, s, st):
        if s.orelse:
            raise Unsupported("for-else")
        # for i, x in enumerate(L): desugared to an index loop over range(len(L)) with x = L[i]
        if isinstance(s.iter, ast.Call) and isinstance(s.iter.func, ast.Name) and s.iter.func.id == "enumerate" \
                and len(s.iter.args) == 1 and isinstance(s.target, ast.Tuple) and len(s.target.elts) == 2 \
                and all(isinstance(e, ast.Name) for e in s.target.elts):
            seq = self.ev(s.iter.args[0], st)
            if not isinstance(seq, (SymList, EmptyList)):
                raise Unsupported("enumerate over %s" % type(seq).__name__)
            iname, xname = s.target.elts[0].id, s.target.elts[1].id
            idx = "it_" + iname
            st.assign(idx, 0)
            hi = seq.length if isinstance(seq, SymList) else 0
            return self.loop(s, st, test_node=None, body=s.body, fingerprint="for %s in %s" % (
                ast.unparse(s.target), ast.unparse(s.iter)), for_info=(idx, iname, hi, 1, (xname, seq)))
        it = self.ev(s.iter, st)
        if not isinstance(it, RangeV):
            raise Unsupported("for over %s" % type(it).__name__)
        if not isinstance(s.target, ast.Name):
            raise Unsupported("for target")
        if not (isinstance(it.step, int) and it.step in (1, -1)):
            raise Unsupported("range step")
        idx = "it_" + s.target.id
        st.assign(idx, it.lo)
        hi = it.hi
        step = it.step
        return self.loop(s, st, test_node=None, body=s.body, fingerprint="for %s in %s" % (
            s.target.id, ast.unparse(s.iter)), for_info=(idx, s.target.id, hi, step))

    def loop_test(self, s, st, test_node, for_info):
        if for_info is None:
            return self.truth(self.ev(test_node, st), st, s)
        idx, tgt, hi, step = for_info[:4]
        cur, _ = st.lookup(idx)
        return self.cmp(ast.Lt() if step == 1 else ast.Gt(), cur, hi)

    def loop_enter_body(self, st, for_info):
        if for_info is not None:
            idx, tgt, hi, step = for_info[:4]
            cur, _ = st.lookup(idx)
            st.assign(tgt, cur)
            if len(for_info) > 4:
                xname, seq = for_info[4]
                st.assign(xname, self.list_get(seq, cur))
            st.assign(idx, self.arith(ast.Add(), cur, step, st, None))

    def loop(self, s, st, test_node, body, fingerprint, for_info=None):
        if self.concrete:
            return self.loop_unrolled(s, st, test_node, body, for_info)
        k = self.loop_ordinal(s, st)
        spec = self.contract.loop_spec(k, fingerprint)
        if spec.unroll:
            return self.loop_unrolled(s, st, test_node, body, for_info, limit=16)
        site = "loop[%d]" % k
        # 1. invariant holds on entry
        for label, expr in spec.inv:
            self.oblige(st, self.ev_spec(expr, st), "inv_entry:%s" % label, s, site=site, kind="inv_entry",
                        clause=expr)
        # 2. havoc everything the body may assign, 3. assume the invariant
        names, fields, has_yield = self.modified_in(s, st)
        if for_info is not None:
            names.add(for_info[0])
        self.havoc(st, names, fields, has_yield, spec)
        for label, expr in spec.inv:
            st.assume(self.ev_spec(expr, st))
        self.normalize_opts(st)
        self.cur_path = next(self.path_id)
        # 4. test
        cond = self.loop_test(s, st, test_node, for_info)
        outs = self.flush(st)
        t, f = self.decide(st, cond)
        if t:
            b = st.fork() if f else st
            b.assume(cond)
            dec0 = None
            if spec.decreases is not None:
                dec0 = self.ev(self.reg.parse_expr(spec.decreases), self.spec_view(b))
                self.oblige(b, self.cmp(ast.GtE(), dec0, 0), "decreases_bounded", s, site=site,
                            kind="termination", clause=spec.decreases + " >= 0")
            self.loop_enter_body(b, for_info)
            for (y, sig) in self.exec_block(body, b):
                if sig[0] in (Signal.NORMAL, Signal.CONTINUE):
                    for label, expr in spec.inv:
                        self.oblige(y, self.ev_spec(expr, y), "inv_preserved:%s" % label, s, site=site,
                                    kind="inv_pres", clause=expr)
                    if dec0 is not None:
                        dec1 = self.ev(self.reg.parse_expr(spec.decreases), self.spec_view(y))
                        self.oblige(y, self.cmp(ast.Lt(), dec1, dec0), "decreases", s, site=site,
                                    kind="termination", clause=spec.decreases + " decreases")
                    self.cover(y, site + ":back_edge")
                    outs.append((y, (Signal.STOP, None)))
                elif sig[0] == Signal.BREAK:
                    outs.append((y, (Signal.NORMAL, None)))
                else:
                    outs.append((y, sig))
        if f:
            st.assume(Not(cond))
            self.cur_path = next(self.path_id)
            outs.append((st, (Signal.NORMAL, None)))
        return outs

    def spec_view(self, st):
        v = st.fork()
        v.spec_mode += 1
        return v

    def loop_unrolled(self, s, st, test_node, body, for_info, limit=100000):
        outs = []
        live = [st]
        n = 0
        while live:
            n += 1
            if n > limit:
                raise EngineError("unrolling limit")
            nxt = []
            for x in live:
                cond = self.loop_test(s, x, test_node, for_info)
                if cond is True:
                    self.loop_enter_body(x, for_info)
                    for (y, sig) in self.exec_block(body, x):
                        if sig[0] in (Signal.NORMAL, Signal.CONTINUE):
                            nxt.append(y)
                        elif sig[0] == Signal.BREAK:
                            outs.append((y, (Signal.NORMAL, None)))
                        else:
                            outs.append((y, sig))
                elif cond is False:
                    outs.append((x, (Signal.NORMAL, None)))
                else:
                    raise EngineError("loop test not concrete in cross-check mode: %s" % cond)
            live = nxt
        return outs

    # cross-check mode: callees are executed, not abstracted -------------------------
    def concrete_call(self, c, bound, st, node):
        name = c.name.split("#")[0]
        wrapped = c.name.endswith("#wrapped")
        if name == "schedule.cls_iter":
            return 1
        fi = self.index.get(name)
        args = dict(bound)
        if wrapped:      # cache_step: s = min(s, n - 1)
            args["s"] = min(args["s"], args["n"] - 1)
        key = None
        if c.pure and all(isinstance(v, (int, bool)) or v is None or isinstance(v, EnumV)
                          for k, v in args.items() if k != "self") and "self" not in args:
            key = (name,) + tuple((k, v.code if isinstance(v, EnumV) else v) for k, v in sorted(args.items()))
            if key in self.concrete_memo:
                kind, val = self.concrete_memo[key]
                if kind == "raise":
                    self.concrete_raise = (val, node)
                    raise ConcreteRaise(val)
                return val
        names = [a.arg for a in fi.node.args.args] + [a.arg for a in fi.node.args.kwonlyargs]
        fr = Frame({k: args[k] for k in names if k in args}, None, fi)
        depth = len(st.frames)
        saved_contract, saved_fi = self.contract, self.fi
        cal = self.reg.contracts.get(name) or c
        self.contract, self.fi = cal, fi
        st.frames.append(fr)
        try:
            outs = self.exec_block(fi.node.body, st)
        finally:
            self.contract, self.fi = saved_contract, saved_fi
        if len(outs) != 1:
            raise EngineError("concrete call of %s forked into %d paths" % (name, len(outs)))
        y, sig = outs[0]
        if y is not st:
            raise EngineError("concrete call changed the state identity")
        del st.frames[depth:]
        if sig[0] == Signal.RAISE:
            if key is not None:
                self.concrete_memo[key] = ("raise", sig[1])
            raise ConcreteRaise(sig[1])
        val = sig[1] if sig[0] == Signal.RETURN else None
        if key is not None:
            self.concrete_memo[key] = ("value", val)
        return val

    # closures --------------------------------------------------------------------
    def ghost_callee(self, node, st):
        """A call from ghost code to another function of the same ghost module."""
        fi = st.frames[-1].func
        if fi is None or not fi.module.startswith("ghost."):
            return None
        try:
            return self.reg.ghost_function(fi.module[len("ghost."):], node.func.id)
        except EngineError:
            return None

    def is_closure_call(self, node, st):
        if isinstance(node, ast.Call) and isinstance(node.func, ast.Name):
            v, i = st.lookup(node.func.id)
            if isinstance(v, FuncV):
                return True
            return i is None and self.ghost_callee(node, st) is not None
        return False

    def inline_call(self, call, st):
        fv, i = st.lookup(call.func.id)
        args = [self.ev(a, st) for a in call.args]
        kw = {k.arg: self.ev(k.value, st) for k in call.keywords}
        if not isinstance(fv, FuncV):
            gi = self.ghost_callee(call, st)
            return self.inline_def(gi.node, None, gi, args, kw, st)
        return self.inline_def(fv.node, fv.frame_index, self.index.funcs.get(
            self.fi.module + "." + fv.qualname), args, kw, st)

    def inline_def(self, node, parent_frame, finfo, args, kw, st):
        names = [a.arg for a in node.args.args]
        if len(args) > len(names):
            raise Unsupported("too many args in inlined call")
        bound = dict(zip(names, args))
        bound.update(kw)
        defaults = node.args.defaults
        for nm, d in zip(names[len(names) - len(defaults):], defaults):
            if nm not in bound:
                bound[nm] = self.ev(d, st)
        for nm in names:
            if nm not in bound:
                raise Unsupported("missing argument %s in inlined call" % nm)
        fr = Frame(bound, parent_frame, finfo or st.frames[-1].func)
        for sub in ast.walk(node):
            if isinstance(sub, ast.Nonlocal):
                fr.nonlocals.update(sub.names)
        depth = len(st.frames)
        st.frames.append(fr)
        outs = []
        for (y, sig) in self.exec_block(node.body, st):
            del y.frames[depth:]
            outs.append((y, sig))
        return outs

    def inline_named(self, module, fname, args, st, node):
        """Inline a ghost function (sidecar Python source) at this point."""
        gi = self.reg.ghost_function(module, fname)
        outs = self.inline_def(gi.node, None, gi, args, {}, st)
        res = []
        for (y, sig) in outs:
            if sig[0] == Signal.RAISE:
                raise EngineError("ghost code raised %s" % sig[1])
            res.append((y, (Signal.NORMAL, None) if sig[0] == Signal.RETURN else sig))
        return res

    # yields ------------------------------------------------------------------------
    def do_yield(self, node, st):
        val = self.ev(node.value, st) if node.value is not None else None
        if not isinstance(val, ActionV):
            raise Unsupported("yield of a non-action")
        fi = st.frames[-1].func or self.fi
        site = fi.site(node, "yield")
        self.cover(st, site)
        if self.concrete:
            self.yield_log.append((val.kind, tuple(val.args)))
            if self.concrete_failed:
                raise StopConcrete()
        hooks = self.contract.hooks
        if hooks is None:
            return [(st, (Signal.NORMAL, None))]
        fname = hooks.get("emit_" + val.kind)
        if fname is None:
            self.oblige(st, False, "action_kind_allowed", node, site=site, kind="exec",
                        clause="this schedule never emits %s" % val.kind)
            return [(st, (Signal.NORMAL, None))]
        self.site_override = site
        try:
            outs = self.inline_named(hooks["module"], fname, self.hook_args(st, val.args), st, node)
        finally:
            self.site_override = None
        if self.concrete and len(self.yield_log) >= self.concrete_limit:
            raise StopConcrete()
        return [(y, (Signal.NORMAL, None)) for (y, sig) in outs]
