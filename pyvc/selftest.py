"""Mutation self-test of the VC engine (DESIGN.md 3.3): each deliberately wrong edit is applied
to a scratch copy of the working tree's package (temporary directory, removed afterwards) and
must make a *named* obligation fail (sat, or no longer provable).  A mutant that the engine
still verifies means the engine or the contracts are too weak: exit 3."""
import os
import shutil
import sys
import tempfile
import time

from . import api

# (id, file, old text, new text, functions to verify, substring expected among the failing obligation names)
MUTANTS = [
    ("eq_isinstance", "checkpoint_schedules/schedule.py",
     "return type(self) is type(other) and self.args == other.args",
     "return isinstance(self, other) and self.args == other.args",
     ["schedule.CheckpointAction.__eq__"], "isinstance_arg2_is_a_class"),
    ("finalize_strict", "checkpoint_schedules/schedule.py",
     "            if self._n >= n:", "            if self._n > n:",
     ["schedule.CheckpointSchedule.finalize"], "RuntimeError"),
    ("finalize_and_for_or", "checkpoint_schedules/schedule.py",
     "elif self._n != n or self._max_n != n:", "elif self._n != n and self._max_n != n:",
     ["schedule.CheckpointSchedule.finalize"], "RuntimeError"),
    ("wrapper_attribute", "checkpoint_schedules/schedule.py",
     "                self._iter = cls_iter(self)", "                self.iter = cls_iter(self)",
     ["schedule.CheckpointSchedule.__init_subclass__.<locals>._iterator"], "frame_assigns_only"),
    ("forward_len", "checkpoint_schedules/schedule.py",
     "    def __len__(self):\n        return self.n1 - self.n0\n\n    def __contains__(self, step):\n        return self.n0 <= step < self.n1\n\n    @property\n    def n0(self):\n        return self.args[0]",
     "    def __len__(self):\n        return self.n1 - self.n0 + 1\n\n    def __contains__(self, step):\n        return self.n0 <= step < self.n1\n\n    @property\n    def n0(self):\n        return self.args[0]",
     ["schedule.Forward.__len__"], "len_is_steps_covered"),
    ("single_memory_clear", "checkpoint_schedules/basic_schedules.py",
     "yield Reverse(self._max_n, 0, False)", "yield Reverse(self._max_n, 0, True)",
     ["basic_schedules.SingleMemoryStorageSchedule._iterator"], "all_dependencies_kept"),
    ("single_disk_r_reset", "checkpoint_schedules/basic_schedules.py",
     "            if self._move_data:\n                self._exhausted = True\n            else:\n                self._r = 0",
     "            if self._move_data:\n                self._exhausted = True\n            self._r = 0",
     ["basic_schedules.SingleDiskStorageSchedule._iterator"], "r_reset_at_EndReverse_iff_more_passes"),
    ("single_disk_copy_for_move", "checkpoint_schedules/basic_schedules.py",
     "yield Move(self._n, StorageType.DISK, StorageType.WORK)",
     "yield Copy(self._n, StorageType.DISK, StorageType.WORK)",
     ["basic_schedules.SingleDiskStorageSchedule._iterator"], "Copy"),
    ("n_advance_minimal_storage", "checkpoint_schedules/multistage.py",
     "return n - 1  # Minimal storage", "return n  # Minimal storage",
     ["multistage.n_advance"], "in_range"),
    ("n_advance_loop", "checkpoint_schedules/multistage.py",
     "b_s_t = (b_s_t * (snapshots + t)) // t", "b_s_t = (b_s_t * (snapshots + t)) // (t + 1)",
     ["multistage.n_advance"], "loop[0]"),
    ("multistage_move_to_copy", "checkpoint_schedules/multistage.py",
     "yield Move(cp_n, cp_storage, StorageType.WORK)", "yield Copy(cp_n, cp_storage, StorageType.WORK)",
     ["multistage.MultistageCheckpointSchedule._iterator"], "coupling"),
    ("multistage_drop_r_increment", "checkpoint_schedules/multistage.py",
     "            self._r += 1\n            yield Reverse(self._n, self._n - 1, True)\n        if self._r",
     "            yield Reverse(self._n, self._n - 1, True)\n        if self._r",
     ["multistage.MultistageCheckpointSchedule._iterator"], "r_is_steps_reversed"),
    ("multistage_stale_label", "checkpoint_schedules/multistage.py",
     "                    cp_storage = write(n0)\n                    yield Forward(n0, n1, True, False, cp_storage)\n\n                if self._n",
     "                    write(n0)\n                    yield Forward(n0, n1, True, False, cp_storage)\n\n                if self._n",
     ["multistage.MultistageCheckpointSchedule._iterator"], "stack_position_keeps_one_storage"),
    ("multistage_uses_storage", "checkpoint_schedules/multistage.py",
     "            return self._snapshots_in_ram > 0", "            return self._snapshots_in_ram > 1",
     ["multistage.MultistageCheckpointSchedule.uses_storage_type",
      "multistage.MultistageCheckpointSchedule._iterator"], "ram_reported"),
    ("twolevel_move_periodic", "checkpoint_schedules/twolevel_binomial.py",
     "                        if cp_n == n0s:\n                            yield Copy(cp_n, StorageType.DISK, StorageType.WORK)  # noqa: E501\n                        else:\n                            yield Move(",
     "                        if cp_n == n0s:\n                            yield Move(cp_n, StorageType.DISK, StorageType.WORK)  # noqa: E501\n                        else:\n                            yield Move(",
     ["twolevel_binomial.TwoLevelCheckpointSchedule._iterator"], "periodic_checkpoints_are_kept"),
    ("twolevel_one_unit_fewer", "checkpoint_schedules/twolevel_binomial.py",
     "                            n_snapshots = (self._binomial_snapshots + 1\n                                           - len(snapshots))",
     "                            n_snapshots = (self._binomial_snapshots\n                                           - len(snapshots))",
     ["twolevel_binomial.TwoLevelCheckpointSchedule._iterator"], "n_advance"),
    ("twolevel_uses_storage", "checkpoint_schedules/twolevel_binomial.py",
     "return storage_type in {StorageType.DISK, self._binomial_storage}",
     "return storage_type == self._binomial_storage",
     ["twolevel_binomial.TwoLevelCheckpointSchedule.uses_storage_type"], "disk_always_used"),
    ("mixed_copy_for_move", "checkpoint_schedules/mixed.py",
     "yield Move(cp_n, self._storage, StorageType.WORK)", "yield Copy(cp_n, self._storage, StorageType.WORK)",
     ["mixed.MixedCheckpointSchedule._iterator"], "coupling"),
    ("mixed_planner_tiebreak_shape", "checkpoint_schedules/mixed.py",
     "        return (StepType.WRITE_ADJ_DEPS, 1, n)\n    elif s == 1:\n        return (StepType.WRITE_ICS, n - 1, n * (n + 1) // 2 - 1)\n    else:\n        m = None",
     "        return (StepType.WRITE_ADJ_DEPS, 1, n)\n    elif s == 1:\n        return (StepType.WRITE_ICS, n, n * (n + 1) // 2 - 1)\n    else:\n        m = None",
     ["mixed.mixed_step_memoization"], "ics_length"),
    ("mixed_init_clamp", "checkpoint_schedules/mixed.py",
     "self._snapshots = min(snapshots, max_n - 1)", "self._snapshots = snapshots",
     ["mixed.MixedCheckpointSchedule.__init__"], "units"),
    ("revolve_copy_for_move", "checkpoint_schedules/hrevolve.py",
     "                    snapshots.remove((storage, n_0))\n                    yield Move(n_0, storage, StorageType.WORK)",
     "                    snapshots.remove((storage, n_0))\n                    yield Copy(n_0, storage, StorageType.WORK)",
     ["hrevolve.RevolveCheckpointSchedule._iterator"], "store_is_snapshot_set"),
    ("revolve_drop_r_increment", "checkpoint_schedules/hrevolve.py",
     "                self._r += 1\n                yield Reverse(n_0, n_1, clear_adj_deps=True)",
     "                yield Reverse(n_0, n_1, clear_adj_deps=True)",
     ["hrevolve.RevolveCheckpointSchedule._iterator"], "r_is_steps_reversed"),
    ("revolve_reverse_swapped", "checkpoint_schedules/hrevolve.py",
     "yield Reverse(n_0, n_1, clear_adj_deps=True)", "yield Reverse(n_1, n_0, clear_adj_deps=True)",
     ["hrevolve.RevolveCheckpointSchedule._iterator"], "Reverse"),
    ("revolve_forward_guard_dropped", "checkpoint_schedules/hrevolve.py",
     "                if n_0 != self._n:\n                    raise InvalidForwardStep\n                self._n = n_1",
     "                self._n = n_1",
     ["hrevolve.RevolveCheckpointSchedule._iterator"], "forward_starts_at_forward_state"),
    ("revolve_leftover_check_dropped", "checkpoint_schedules/hrevolve.py",
     "        if len(snapshots) > 0:\n            raise RuntimeError(\"Unexpected snapshot number.\")\n", "",
     ["hrevolve.RevolveCheckpointSchedule._iterator"], "storage_empty_at_final_EndReverse"),
    ("revolve_exhausted_late", "checkpoint_schedules/hrevolve.py",
     "        self._exhausted = True\n        yield EndReverse()", "        yield EndReverse()\n        self._exhausted = True",
     ["hrevolve.RevolveCheckpointSchedule._iterator"], "is_exhausted_true_once_final_action_emitted"),
    ("revolve_forward_storage", "checkpoint_schedules/hrevolve.py",
     "                    write_ics = False\n                    adj_deps = False\n                    w_storage = StorageType.WORK",
     "                    write_ics = False\n                    adj_deps = False\n                    w_storage = StorageType.RAM",
     ["hrevolve.RevolveCheckpointSchedule._iterator"], "forward_ram_disk_only_if_written"),
    ("revolve_read_keeps_n", "checkpoint_schedules/hrevolve.py",
     "                self._n = n_0\n                if i in last_read:", "                if i in last_read:",
     ["hrevolve.RevolveCheckpointSchedule._iterator"], "n_is_forward_position"),
    ("convert_levels_swapped", "checkpoint_schedules/hrevolve.py",
     "storage = {0: StorageType.RAM, 1: StorageType.DISK}[storage]",
     "storage = {1: StorageType.RAM, 0: StorageType.DISK}[storage]",
     ["hrevolve._convert_action"], "levelled"),
    ("convert_backward_check", "checkpoint_schedules/hrevolve.py",
     "        if n_0 <= n_1:\n            raise RuntimeError(\"Invalid backward indexes.\")",
     "        if n_0 < n_1:\n            raise RuntimeError(\"Invalid backward indexes.\")",
     ["hrevolve._convert_action"], "RuntimeError"),
    ("convert_disk_as_ram", "checkpoint_schedules/hrevolve.py",
     "        storage = 1\n        storage = {1: StorageType.DISK}[storage]",
     "        storage = 1\n        storage = {1: StorageType.RAM}[storage]",
     ["hrevolve._convert_action"], "disk_step"),
    ("builder_backward_two_steps", "checkpoint_schedules/hrevolve_sequences/revolve.py",
     'sequence.insert(operation("Backward", [index + 2, index + 1]))',
     'sequence.insert(operation("Backward", [index + 2, index]))',
     ["seq.revolve.revolve"], "shape:backward_is_one_step"),
    ("builder_scalar_for_pair", "checkpoint_schedules/hrevolve_sequences/disk_revolve.py",
     'sequence.insert(operation("Forward", [0, jmin]))', 'sequence.insert(operation("Forward", jmin))',
     ["seq.disk_revolve.disk_revolve"], "shape:pair_types_carry_a_pair"),
    ("hopt_one_slot_costs_swapped", "checkpoint_schedules/hrevolve_sequences/hrevolve.py",
     "optp[0][l][1] = (l + 1) * ub + l * (l + 1) / 2 * uf + l * rvect[0]",
     "optp[0][l][1] = (l + 1) * uf + l * (l + 1) / 2 * ub + l * rvect[0]",
     ["seq.hrevolve.get_hopt_table"], "loop[3]"),
    ("hopt_first_candidate_skipped", "checkpoint_schedules/hrevolve_sequences/hrevolve.py",
     "+ optp[k][j - 1][m] for j in range(1, l)])", "+ optp[k][j - 1][m] for j in range(2, l)])",
     ["seq.hrevolve.get_hopt_table"], "store[9]"),
    ("hopt_disk_write_dropped", "checkpoint_schedules/hrevolve_sequences/hrevolve.py",
     "opt[k][l][m] = min(opt[k-1][l][cvect[k-1]], wvect[k] + optp[k][l][m])",
     "opt[k][l][m] = min(opt[k-1][l][cvect[k-1]], optp[k][l][m])",
     ["seq.hrevolve.get_hopt_table"], "store[10]"),
    ("hopt_disk_read_as_ram_read", "checkpoint_schedules/hrevolve_sequences/hrevolve.py",
     "[j * uf + opt[k][l - j][m - 1] + rvect[k]", "[j * uf + opt[k][l - j][m - 1] + rvect[0]",
     ["seq.hrevolve.get_hopt_table"], "store[9]"),
    ("hopt_border_without_guard", "checkpoint_schedules/hrevolve_sequences/hrevolve.py",
     "        if lmax == 0:\n            continue\n", "",
     ["seq.hrevolve.get_hopt_table"], "loop[2]"),
    ("haux_disk_read_as_ram_read", "checkpoint_schedules/hrevolve_sequences/hrevolve.py",
     'sequence.insert(operation("Read", [K, 0]))\n        sequence.insert_sequence(\n            hrevolve_aux(jmin - 1, K, cmem',
     'sequence.insert(operation("Read", [0, 0]))\n        sequence.insert_sequence(\n            hrevolve_aux(jmin - 1, K, cmem',
     ["seq.hrevolve.hrevolve_aux"], "makespan_level_1"),
    ("haux_slot_not_consumed", "checkpoint_schedules/hrevolve_sequences/hrevolve.py",
     "hrevolve_recurse(l - jmin, K, cmem - 1, cvect, wvect, rvect,",
     "hrevolve_recurse(l - jmin, K, cmem, cvect, wvect, rvect,",
     ["seq.hrevolve.hrevolve_aux"], "makespan_level_1"),
    ("hrecurse_comparison_flipped", "checkpoint_schedules/hrevolve_sequences/hrevolve.py",
     "if wvect[K] + hoptp[K][l][cmem] < hopt[K-1][l][cvect[K-1]]:",
     "if wvect[K] + hoptp[K][l][cmem] > hopt[K-1][l][cvect[K-1]]:",
     ["seq.hrevolve.hrevolve_recurse"], "makespan_level_1"),
    ("hrecurse_disk_write_dropped", "checkpoint_schedules/hrevolve_sequences/hrevolve.py",
     'sequence.insert(operation("Write", [K, 0]))\n        sequence.insert_sequence(\n            hrevolve_aux(l, K, cmem',
     'sequence.insert(operation("Write", [0, 0]))\n        sequence.insert_sequence(\n            hrevolve_aux(l, K, cmem',
     ["seq.hrevolve.hrevolve_recurse"], "makespan_level_1"),
    ("revolve_checkpoint_write_not_flagged", "checkpoint_schedules/hrevolve.py",
     "                    write_ics = True\n                    adj_deps = False\n                    snapshots.add((w_storage, w_n0))",
     "                    write_ics = False\n                    adj_deps = False\n                    snapshots.add((w_storage, w_n0))",
     ["hrevolve.RevolveCheckpointSchedule._iterator"], "cost_so_far"),
    ("multistage_reused_unit_not_counted", "checkpoint_schedules/multistage.py",
     "                               - len(snapshots) + 1)", "                               - len(snapshots))",
     ["multistage.MultistageCheckpointSchedule._iterator"], "potential"),
]


def run(verbose=True, only_functions=None):
    src = os.path.join(os.environ.get("VERIF_REPO", "/repo"), "checkpoint_schedules")
    tmp = tempfile.mkdtemp(prefix="pyvc_selftest_")
    results = []
    try:
        for (mid, rel, old, new, fns, expect) in MUTANTS:
            if only_functions is not None and not (set(fns) & set(only_functions)):
                continue
            dst = os.path.join(tmp, mid)
            os.makedirs(dst)
            shutil.copytree(src, os.path.join(dst, "checkpoint_schedules"))
            path = os.path.join(dst, rel)
            with open(path) as f:
                text = f.read()
            if text.count(old) < 1:
                results.append((mid, "anchor", "mutation site not found (source changed?)"))
                shutil.rmtree(dst)
                continue
            with open(path, "w") as f:
                f.write(text.replace(old, new, 1))
            t0 = time.time()
            reg, recs, obligations, res, covers, wall = api.verify(repo=dst, only=fns, timeout_s=10)
            bad = [o["name"] for o, r in zip(obligations, res) if r["status"] != "unsat"]
            errs = [r["name"] + ":" + r["status"] for r in recs if r["status"] != "ok"]
            hit = [b for b in bad if expect in b]
            if hit:
                results.append((mid, "killed", "%s (%d obligations fail, %.0fs)" % (hit[0], len(bad), time.time() - t0)))
            elif bad or errs:
                results.append((mid, "killed-elsewhere", "%s" % ((bad + errs)[:3],)))
            else:
                results.append((mid, "SURVIVED", "all %d obligations still discharge" % len(obligations)))
            shutil.rmtree(dst)
    finally:
        shutil.rmtree(tmp, ignore_errors=True)
    if verbose:
        for r in results:
            print("%-32s %-17s %s" % r)
    return results


def main(argv):
    res = run()
    survived = [r for r in res if r[1] == "SURVIVED"]
    anchors = [r for r in res if r[1] == "anchor"]
    print("selftest: %d mutants, %d killed, %d survived, %d not applicable" % (
        len(res), sum(1 for r in res if r[1].startswith("killed")), len(survived), len(anchors)))
    if survived:
        return 3
    return 0


if __name__ == "__main__":
    sys.exit(main(sys.argv[1:]))
