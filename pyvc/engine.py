"""pyvc: symbolic execution of the real Python functions against sidecar contracts
(DESIGN.md section 3, Appendix B).  One Engine instance verifies one function:
it walks every acyclic path between cut points (entry, loop heads, exits),
checks callee preconditions, uses callee contracts (never callee bodies, except
nested closures which are part of the function's own text), and records one
Obligation per proof duty."""
import ast
import copy
import itertools
from fractions import Fraction

import z3

from .values import (Unsupported, EngineError, is_z3, is_boolish, is_intish, is_realish,
                     is_numish, concretize, simp, Z, ZB, ZR, EnumV, Opt, SymList, EmptyList,
                     SymSet, Obj, ActionV, ClassRef, TypeV, FuncV, RangeV, IndexV, Grid2, GridRow, ExtV, DictV, ObjList, RowRef, PartialV, ListLit, SymMap2, NdArray3, INF, Inf,
                     STORAGE_CODES,
                     STEPTYPE)
from .source import AnchorError

MAXSIZE = 9223372036854775807
ACTION_KINDS = {"Forward": ("n0", "n1", "write_ics", "write_adj_deps", "storage"),
                "Reverse": ("n1", "n0", "clear_adj_deps"),
                "Copy": ("n", "from_storage", "to_storage"),
                "Move": ("n", "from_storage", "to_storage"),
                "EndForward": (), "EndReverse": ()}
EXC_PARENTS = {"InvalidForwardStep": "IndexError", "InvalidReverseStep": "IndexError",
               "InvalidActionIndex": "IndexError", "InvalidRevolverAction": "Exception"}


NOTFOUND = object()


class Obligation:
    def __init__(self, name, props, pc, goal, loc, function, kind, clause, path_id):
        self.name = name
        self.props = tuple(props)
        self.pc = list(pc)
        self.goal = goal
        self.loc = loc
        self.function = function
        self.kind = kind
        self.clause = clause
        self.path_id = path_id
        self.inputs = {}      # name -> z3 expr, for counterexample read-back


class Frame:
    def __init__(self, vars=None, parent=None, func=None, nonlocals=()):
        self.vars = {} if vars is None else vars
        self.parent = parent       # index of the enclosing frame (closures)
        self.func = func           # FuncInfo
        self.nonlocals = set(nonlocals)


class State:
    def __init__(self):
        self.frames = [Frame()]
        self.heap = {}
        self.pc = []
        self.guards = []
        self.old_heap = None
        self.old_vars = None
        self.spec_mode = 0
        self.trace = []
        self.dead = False
        self.pending_raises = None

    def fork(self):
        s = State.__new__(State)
        s.frames = [Frame(dict(f.vars), f.parent, f.func, f.nonlocals) for f in self.frames]
        s.pending_raises = None if self.pending_raises is None else list(self.pending_raises)
        s.heap = {k: dict(v) for k, v in self.heap.items()}
        s.pc = list(self.pc)
        s.guards = list(self.guards)
        s.old_heap = self.old_heap
        s.old_vars = self.old_vars
        s.spec_mode = self.spec_mode
        s.trace = list(self.trace)
        s.dead = self.dead
        return s

    # frames
    def lookup(self, name):
        i = len(self.frames) - 1
        while i is not None:
            f = self.frames[i]
            if name in f.vars:
                return f.vars[name], i
            i = f.parent
        return None, None

    def assign(self, name, val, nonlocal_ok=False):
        if nonlocal_ok:
            _, i = self.lookup(name)
            if i is not None:
                self.frames[i].vars[name] = val
                return
        self.frames[-1].vars[name] = val

    def assume(self, cond):
        if cond is True:
            return
        g = self.guard()
        c = ZB(cond)
        self.pc.append(c if g is None else z3.Implies(g, c))

    def guard(self):
        if not self.guards:
            return None
        return z3.And(*[ZB(g) for g in self.guards]) if len(self.guards) > 1 else ZB(self.guards[0])


def Not(a):
    if isinstance(a, bool):
        return not a
    return simp(z3.Not(a))


def And(*xs):
    ys = []
    for x in xs:
        if x is False:
            return False
        if x is True:
            continue
        ys.append(x)
    if not ys:
        return True
    if len(ys) == 1:
        return ys[0]
    return simp(z3.And(*ys))


def Or(*xs):
    ys = []
    for x in xs:
        if x is True:
            return True
        if x is False:
            continue
        ys.append(x)
    if not ys:
        return False
    if len(ys) == 1:
        return ys[0]
    return simp(z3.Or(*ys))


def Implies(a, b):
    if a is False or b is True:
        return True
    if a is True:
        return b
    return simp(z3.Implies(ZB(a), ZB(b)))


def Ite(c, a, b):
    if c is True:
        return a
    if c is False:
        return b
    if is_boolish(a) and is_boolish(b):
        return simp(z3.If(c, ZB(a), ZB(b)))
    if is_numish(a) and is_numish(b):
        za, zb = Z(a), Z(b)
        if z3.is_real(za) != z3.is_real(zb):
            za, zb = ZR(za), ZR(zb)
        return simp(z3.If(c, za, zb))
    if isinstance(a, EnumV) and isinstance(b, EnumV) and a.sort == b.sort:
        return EnumV(a.sort, simp(z3.If(c, Z(a.code), Z(b.code))))
    if isinstance(a, tuple) and isinstance(b, tuple) and len(a) == len(b):
        return tuple(Ite(c, x, y) for x, y in zip(a, b))
    if a is None and b is None:
        return None
    if isinstance(a, Opt) or isinstance(b, Opt) or a is None or b is None:
        oa, ob = to_opt(a), to_opt(b)
        return Opt(Ite(c, oa.isnone, ob.isnone), Ite(c, oa.val, ob.val))
    raise Unsupported("if-expression over %r / %r" % (type(a).__name__, type(b).__name__))


def to_opt(v):
    if isinstance(v, Opt):
        return v
    if v is None:
        return Opt(True, 0)
    return Opt(False, v)


class Signal:
    NORMAL, BREAK, CONTINUE, RETURN, RAISE, STOP = "normal", "break", "continue", "return", "raise", "stop"


class Engine:
    def __init__(self, index, registry, fi, contract, *, concrete=False, timeout_ms=60):
        self.index = index
        self.reg = registry
        self.fi = fi                  # FuncInfo of the function under verification
        self.contract = contract
        self.concrete = concrete      # unroll loops (CPython cross-check mode)
        self.obligations = []
        self.fresh_id = itertools.count()
        self.path_id = itertools.count()
        self.solver = z3.Solver()
        # deterministic resource limit for the feasibility queries (a wall-clock timeout would
        # make path pruning, hence the set of generated obligations, depend on machine load)
        self.solver.set("rlimit", 60000)
        # (the wall-clock cap is only a safety net for theories that ignore rlimit; it must be far
        # above what a loaded machine needs for a query that stays within the resource limit)
        self.solver.set("timeout", 60000)
        self.yield_log = []           # concrete mode: actions emitted
        self.covers = []              # (site, pc) reachability checks
        self.delegated = []
        self.inputs = {}
        self.uses_lemmas = set()
        self.last_min_witness = None
        self._pending_objects = []
        self.concrete_nondet = []
        self.concrete_limit = 10 ** 9
        self.concrete_failed = []
        self.concrete_memo = {}
        self._qcache = {}
        self.max_paths = 4000
        self.npaths = 0
        self.warnings = []

    # ------------------------------------------------------------------ fresh values
    def fresh(self, ty, hint="v"):
        n = "%s!%d" % (hint, next(self.fresh_id))
        if isinstance(ty, tuple):
            tag = ty[0]
            if tag == "list" or tag == "tuplelist":
                comps = ty[1]
                arrs = [z3.Const("%s.a%d" % (n, i), z3.ArraySort(z3.IntSort(), self.sort_of(c)))
                        for i, c in enumerate(comps)]
                ln = z3.Int(n + ".len")
                return SymList(arrs, ln, comps, tup=(len(comps) > 1 or (len(ty) > 2 and ty[2])),
                               immutable=(tag == "tuplelist")), [ln >= 0]
            if tag == "objlist":
                return self.fresh_objlist(ty[1], hint)
            if tag == "obj":
                oid = "%s!%d" % (hint.replace(".", "_"), next(self.fresh_id))
                fields, cons = {}, []
                for fld, fty in self.reg.fields_of(ty[1]).items():
                    v, cs = self.fresh(fty[1:] if isinstance(fty, str) and fty.startswith("?") else fty,
                                       "%s.%s" % (oid, fld))
                    fields[fld] = v
                    cons += cs
                self._pending_objects.append((oid, fields))
                return Obj(oid, ty[1]), cons
            if tag == "dict":
                items, cons = {}, []
                for k, t in ty[1].items():
                    v, cs = self.fresh(t, "%s[%s]" % (hint, k))
                    items[k] = v
                    cons += cs
                return DictV(items), cons
            if tag == "opt":
                v, cs = self.fresh(ty[1], hint)
                return Opt(z3.Bool(n + ".none"), v), cs
            if tag == "tuple":
                vals, cons = [], []
                for i, c in enumerate(ty[1]):
                    v, cs = self.fresh(c, "%s.%d" % (hint, i))
                    vals.append(v)
                    cons += cs
                return tuple(vals), cons
            raise EngineError("unknown type %r" % (ty,))
        if ty == "int":
            return z3.Int(n), []
        if ty == "nat":
            v = z3.Int(n)
            return v, [v >= 0]
        if ty == "bool":
            return z3.Bool(n), []
        if ty == "real":
            return z3.Real(n), []
        if ty == "optint":
            return Opt(z3.Bool(n + ".none"), z3.Int(n)), []
        if ty == "optbool":
            return Opt(z3.Bool(n + ".none"), z3.Bool(n)), []
        if ty == "storage":
            c = z3.Int(n)
            return EnumV("StorageType", c), [c >= 0, c <= 3]
        if ty == "steptype":
            c = z3.Int(n)
            return c, [c >= 0, c <= 6]
        if ty == "str":
            return EnumV("str", z3.Int(n)), []
        if ty == "opindex":
            return IndexV(z3.Bool(n + ".ip"), z3.Int(n + ".i0"), z3.Int(n + ".i1")), []
        if ty == "set":
            arr = z3.Const(n + ".s", z3.ArraySort(z3.IntSort(), z3.BoolSort()))
            card = z3.Int(n + ".card")
            x = z3.Int("x!%d" % next(self.fresh_id))
            # well-formedness of the (characteristic array, cardinality) encoding of a finite set
            return SymSet(arr, card), [card >= 0, z3.ForAll([x], z3.Implies(z3.Select(arr, x), card >= 1))]
        if ty == "none":
            return None, []
        if ty == "any":
            return z3.Int(n), []
        if ty == "nd3":
            srt = z3.ArraySort(z3.IntSort(), z3.ArraySort(z3.IntSort(), z3.IntSort()))
            d0, d1 = z3.Int(n + ".d0"), z3.Int(n + ".d1")
            return NdArray3([z3.Const("%s.c%d" % (n, i), srt) for i in range(3)], d0, d1), [d0 >= 0, d1 >= 0]
        if ty == "grid":
            return self.fresh_grid(n)
        if ty == "map2":
            return SymMap2(z3.Array(n + ".present", z3.IntSort(), z3.IntSort(), z3.BoolSort()),
                           z3.Array(n + ".val", z3.IntSort(), z3.IntSort(), z3.IntSort())), []
        if ty == "dict":
            raise Unsupported("fresh dict without declared keys")
        raise EngineError("unknown type %r" % (ty,))

    def fresh_grid(self, n, d0=None, d1=None):
        s2b = z3.ArraySort(z3.IntSort(), z3.ArraySort(z3.IntSort(), z3.BoolSort()))
        s2r = z3.ArraySort(z3.IntSort(), z3.ArraySort(z3.IntSort(), z3.RealSort()))
        cons = []
        if d0 is None:
            d0, d1 = z3.Int(n + ".d0"), z3.Int(n + ".d1")
            cons = [d0 >= 0, d1 >= 0]
        return Grid2(z3.Const(n + ".inf", s2b), z3.Const(n + ".val", s2r), d0, d1), cons

    def sort_of(self, ty):
        if ty in ("int", "nat", "storage", "steptype", "str"):
            return z3.IntSort()
        if ty == "bool":
            return z3.BoolSort()
        if ty == "real":
            return z3.RealSort()
        raise EngineError("no array sort for %r" % (ty,))

    def fresh_like(self, v, hint):
        """Havoc: a fresh value of the same shape."""
        if isinstance(v, bool) or (is_z3(v) and z3.is_bool(v)):
            return self.fresh("bool", hint)
        if is_intish(v):
            return self.fresh("int", hint)
        if is_realish(v):
            return self.fresh("real", hint)
        if isinstance(v, EnumV):
            return self.fresh("storage" if v.sort == "StorageType" else "str", hint)
        if isinstance(v, Opt) and isinstance(v.val, tuple):
            x, cs = self.fresh_like(v.val, hint)
            return Opt(z3.Bool("%s.none!%d" % (hint, next(self.fresh_id))), x), cs
        if isinstance(v, Opt) and is_boolish(v.val):
            return self.fresh("optbool", hint)
        if isinstance(v, Opt) or v is None:
            return self.fresh("optint", hint)
        if isinstance(v, SymList):
            x, cs = self.fresh(("tuplelist" if v.immutable else "list", v.etypes, v.tup), hint)
            for i, t in enumerate(v.etypes):
                cs += self.elem_constraints(x, i, t)
            return x, cs
        if isinstance(v, IndexV):
            return self.fresh("opindex", hint)
        if isinstance(v, Grid2):
            # the shape of a table never changes after its creation
            return self.fresh_grid("%s!%d" % (hint, next(self.fresh_id)), v.d0, v.d1)
        if isinstance(v, SymSet):
            x, cs = self.fresh("set", hint)
            return x, cs + [x.card >= 0]
        if isinstance(v, ObjList):
            return self.fresh_objlist(v.cls, hint)
        if isinstance(v, (DictV, PartialV, RowRef)):
            return v, []
        if isinstance(v, SymMap2):
            return self.fresh("map2", hint)
        if isinstance(v, NdArray3):
            n0 = "%s!%d" % (hint, next(self.fresh_id))
            srt = z3.ArraySort(z3.IntSort(), z3.ArraySort(z3.IntSort(), z3.IntSort()))
            return NdArray3([z3.Const("%s.c%d" % (n0, i), srt) for i in range(3)], v.d0, v.d1), []
        if isinstance(v, ListLit):
            etypes = [self.type_of_value(v[0])]
            x, cs = self.fresh(("list", etypes), hint)
            return x, cs
        if isinstance(v, tuple):
            vals, cons = [], []
            for i, c in enumerate(v):
                x, cs = self.fresh_like(c, "%s.%d" % (hint, i))
                vals.append(x)
                cons += cs
            return tuple(vals), cons
        if isinstance(v, EmptyList):
            raise Unsupported("havoc of a list whose element type is unknown: declare it in the "
                              "sidecar (locals) - variable %s" % hint)
        if isinstance(v, (Obj, FuncV, ClassRef, ActionV)):
            return v, []
        raise Unsupported("cannot havoc value of type %s (%s)" % (type(v).__name__, hint))

    def elem_constraints(self, lst, comp, ty):
        """Type invariants of list elements (quantified)."""
        if ty in ("storage", "steptype", "nat"):
            i = z3.Int("i!%d" % next(self.fresh_id))
            hi = {"storage": 3, "steptype": 6}.get(ty)
            sel = z3.Select(lst.arrs[comp], i)
            body = sel >= 0 if hi is None else z3.And(sel >= 0, sel <= hi)
            return [z3.ForAll([i], body)]
        return []

    # ------------------------------------------------------------------ lists of objects
    def objlist_sorts(self, cls):
        out = {}
        for f, ty in self.reg.fields_of(cls).items():
            if isinstance(ty, tuple) and ty[0] in ("list", "tuplelist") and len(ty[1]) == 1:
                out[f] = z3.ArraySort(z3.IntSort(), z3.ArraySort(z3.IntSort(), self.sort_of(ty[1][0])))
                out[f + ".len"] = z3.ArraySort(z3.IntSort(), z3.IntSort())
            elif isinstance(ty, str) and ty in ("int", "nat", "bool", "real", "str", "storage"):
                out[f] = z3.ArraySort(z3.IntSort(), self.sort_of(ty))
            elif ty == "opindex":
                out[f + ".ip"] = z3.ArraySort(z3.IntSort(), z3.BoolSort())
                out[f + ".i0"] = z3.ArraySort(z3.IntSort(), z3.IntSort())
                out[f + ".i1"] = z3.ArraySort(z3.IntSort(), z3.IntSort())
            else:
                raise Unsupported("field %s.%s of type %r in a list of objects" % (cls, f, ty))
        return out

    def fresh_objlist(self, cls, hint):
        n = "%s!%d" % (hint, next(self.fresh_id))
        arrays = {k: z3.Const("%s.%s" % (n, k), srt) for k, srt in self.objlist_sorts(cls).items()}
        ln = z3.Int(n + ".len")
        cons = [ln >= 0]
        i = z3.Int("r!%d" % next(self.fresh_id))
        for k, a in arrays.items():
            if k.endswith(".len"):
                cons.append(z3.ForAll([i], z3.Select(a, i) >= 0))
            elif self.reg.fields_of(cls).get(k) == "storage":
                cons.append(z3.ForAll([i], z3.And(z3.Select(a, i) >= 0, z3.Select(a, i) <= 3)))
        return ObjList(cls, arrays, ln, self.reg.fields_of(cls)), cons

    def materialise(self, st, lst, row):
        """Temporary heap object holding row `row` of an object list."""
        oid = "row!%d" % next(self.fresh_id)
        fields = {}
        for f, ty in lst.ftypes.items():
            fields[f] = self.row_field(lst, row, f)
        st.heap[oid] = fields
        obj = Obj(oid, lst.cls)
        # rows are only ever modified through method contracts whose frames preserve the class
        # invariant, and the constructor establishes it
        for label, expr in self.reg.invariant_of(lst.cls):
            inv = State()
            inv.frames = [Frame({"self": obj}, None, None)]
            inv.heap = st.heap
            inv.spec_mode = 1
            st.assume(self.ev_spec(expr, inv))
        return obj

    def row_field(self, lst, row, f):
        ty = lst.ftypes[f]
        if f + ".len" in lst.arrays:
            return SymList([simp(z3.Select(lst.arrays[f], Z(row)))],
                           simp(z3.Select(lst.arrays[f + ".len"], Z(row))), ty[1], False)
        if ty == "opindex":
            return IndexV(*[simp(z3.Select(lst.arrays["%s.%s" % (f, k)], Z(row))) for k in ("ip", "i0", "i1")])
        e = simp(z3.Select(lst.arrays[f], Z(row)))
        if ty == "str":
            return EnumV("str", e)
        if ty == "storage":
            return EnumV("StorageType", e)
        return e

    def writeback(self, st, lst, row, obj):
        arrays = dict(lst.arrays)
        for f, ty in lst.ftypes.items():
            v = st.heap[obj.oid][f]
            if f + ".len" in arrays:
                if isinstance(v, EmptyList):
                    v = SymList([z3.K(z3.IntSort(), self.default_of(ty[1][0]))], 0, ty[1], False)
                arrays[f] = simp(z3.Store(arrays[f], Z(row), v.arrs[0]))
                arrays[f + ".len"] = simp(z3.Store(arrays[f + ".len"], Z(row), Z(v.length)))
            elif ty == "opindex":
                for k in ("ip", "i0", "i1"):
                    x = getattr(v, k)
                    arrays["%s.%s" % (f, k)] = simp(z3.Store(arrays["%s.%s" % (f, k)], Z(row),
                                                            ZB(x) if k == "ip" else Z(x)))
            else:
                arrays[f] = simp(z3.Store(arrays[f], Z(row), ZB(v) if is_boolish(v) else self.elem_to_z3(v)))
        del st.heap[obj.oid]
        return ObjList(lst.cls, arrays, lst.length, lst.ftypes)

    def row_object(self, ref, st, node):
        """lst[idx] as an object (Python index semantics: -len <= idx < len)."""
        ln = ref.lst.length
        idx = ref.row
        self.oblige(st, And(self.cmp(ast.GtE(), idx, self.arith(ast.Sub(), 0, ln, st, node)),
                            self.cmp(ast.Lt(), idx, ln)), "index_in_range", node)
        if isinstance(idx, int):
            pos = idx if idx >= 0 else self.arith(ast.Add(), ln, idx, st, node)
        else:
            pos = Ite(self.cmp(ast.Lt(), idx, 0), self.arith(ast.Add(), ln, idx, st, node), idx)
        return self.materialise(st, ref.lst, pos)

    def row_call(self, st, ref, meth, args, kw, node):
        c = self.reg.method_contract(ref.lst.cls, meth)
        if c is None:
            raise Unsupported("method %s.%s has no contract" % (ref.lst.cls, meth))
        if not st.spec_mode:
            self.oblige(st, And(self.cmp(ast.GtE(), ref.row, 0), self.cmp(ast.Lt(), ref.row, ref.lst.length)),
                        "index_in_range", node)
        tmp = self.materialise(st, ref.lst, ref.row)
        res = self.call_contract(c, [tmp] + list(args), kw, st, node)
        if c.frame:
            new = self.writeback(st, ref.lst, ref.row, tmp)
            self.store_target(ref.target, new, st, node)
        else:
            st.heap.pop(tmp.oid, None)
        return res

    def new_object(self, cls, args, kw, st, node):
        """Cls(...): allocate a heap record and run the constructor's contract on it."""
        c = self.reg.method_contract(cls, "__init__", exact=False)
        oid = "%s!%d" % (cls, next(self.fresh_id))
        st.heap[oid] = {}
        obj = Obj(oid, cls)
        if c is not None:
            self.call_contract(c, [obj] + list(args), kw, st, node)
        return obj

    # ------------------------------------------------------------------ obligations
    def oblige(self, st, cond, label, node, props=None, kind="implicit", clause=None, site=None):
        if st.spec_mode:
            return
        trivial = cond is True
        if kind == "implicit" and label in getattr(self.contract, "implicit_guards", ()) and not self.concrete \
                and (st.frames[-1].func or self.fi) is self.fi:
            # the function is verified on the paths where it does not raise itself (total=False):
            # this implicit exception ends the path like an explicit guard
            if cond is not True:
                note = "%s#%s:%s not proved absent (bounded)" % (self.fi.name, self.fi.site(node), label)
                if note not in self.delegated:
                    self.delegated.append(note)
                st.assume(cond)
            return
        if self.concrete:
            if cond is not True:
                self.concrete_failed.append((label, getattr(node, "lineno", 0), str(cond)[:200]))
            return
        if trivial and kind in ("implicit",):
            return
        fi = st.frames[-1].func or self.fi
        if site is None:
            site = fi.site(node) if node is not None else "entry"
        name = "%s#%s:%s" % (self.fi.name if (fi is self.fi or fi.module.startswith("ghost.")) else fi.name,
                             site, label)
        g = st.guard()
        goal = ZB(cond)
        pc = list(st.pc) + ([g] if g is not None else [])
        loc = "%s:%d" % (fi.path.replace(self.index.repo + "/", ""), getattr(node, "lineno", fi.lines[0]))
        ob = Obligation(name, props or self.contract.props, pc, goal, loc, self.fi.name, kind,
                        clause or label, self.cur_path)
        ob.inputs = dict(self.inputs)
        ob.trivial = trivial      # folded to True by z3.simplify: no solver call needed
        self.obligations.append(ob)
        st.assume(cond)

    def cover(self, st, site):
        self.covers.append((site, list(st.pc)))

    def has_quantifier(self, e):
        """Quantified facts are left out of the *feasibility* queries (path pruning and
        branch decisions): that only makes more paths feasible, which is sound, and keeps
        those queries in a decidable fragment."""
        cache = self._qcache
        eid = e.get_id()
        if eid in cache:
            return cache[eid]
        stack = [e]
        found = False
        seen = set()
        while stack:
            x = stack.pop()
            xid = x.get_id()
            if xid in seen:
                continue
            seen.add(xid)
            if z3.is_quantifier(x):
                found = True
                break
            if xid in cache:
                if cache[xid]:
                    found = True
                    break
                continue
            stack.extend(x.children())
        cache[eid] = found
        return found

    def qf(self, pc):
        return [c for c in pc if not self.has_quantifier(c)]

    def _check(self, assertions, strong=False):
        """sat / unsat / unknown of a quantifier-free conjunction under the small deterministic
        resource limit (unknown keeps the path: sound, it only makes more paths feasible).
        strong: an unknown is retried once with a limit 100 times larger (used where the engine
        would otherwise have to give up on the function)."""
        self.solver.push()
        try:
            self.solver.add(*assertions)
            r = self.solver.check()
        finally:
            self.solver.pop()
        if r == z3.unknown and strong:
            s2 = z3.Solver()
            s2.set("rlimit", 6000000)
            s2.set("timeout", 120000)
            s2.add(*assertions)
            r = s2.check()
        return r

    def strongly_infeasible(self, st):
        """Used when a path runs into a construct outside the verified subset: before giving up
        on the whole function, decide with a limit 100 times larger whether the path exists at
        all (whether the small limit suffices depends on incidental details of the formula)."""
        s2 = z3.Solver()
        s2.set("rlimit", 6000000)
        s2.set("timeout", 120000)
        g = st.guard()
        s2.add(*(self.qf(st.pc) + ([g] if g is not None and not self.has_quantifier(ZB(g)) else [])))
        return s2.check() == z3.unsat

    def feasible(self, st):
        if not st.pc:
            return True
        return self._check(self.qf(st.pc)) != z3.unsat

    def decide(self, st, cond, strong=False):
        """(can_be_true, can_be_false) under the path condition."""
        if cond is True:
            return True, False
        if cond is False:
            return False, True
        c = ZB(cond)
        if self.has_quantifier(c):
            return True, True
        base = self.qf(st.pc)
        t = self._check(base + [c], strong) != z3.unsat
        f = self._check(base + [z3.Not(c)], strong) != z3.unsat
        return t, f

    # ------------------------------------------------------------------ arithmetic
    def arith(self, op, a, b, st, node):
        if isinstance(a, Inf) or isinstance(b, Inf):
            raise Unsupported("arithmetic on float('inf')")
        if isinstance(a, Opt) or isinstance(b, Opt) or a is None or b is None:
            for x in (a, b):
                if isinstance(x, Opt):
                    self.oblige(st, Not(x.isnone), "none_in_arithmetic", node, kind="implicit")
                elif x is None:
                    self.oblige(st, False, "none_in_arithmetic", node, kind="implicit")
            a = a.val if isinstance(a, Opt) else a
            b = b.val if isinstance(b, Opt) else b
        if isinstance(op, ast.Add) and isinstance(a, (SymList, ListLit, EmptyList)) \
                and isinstance(b, (SymList, ListLit, EmptyList)):
            return self.list_concat(a, b, st, node)
        if isinstance(a, bool):
            a = int(a)
        if isinstance(b, bool):
            b = int(b)
        if is_z3(a) and z3.is_bool(a):
            a = z3.If(a, 1, 0)
        if is_z3(b) and z3.is_bool(b):
            b = z3.If(b, 1, 0)
        if not (is_numish(a) and is_numish(b)):
            raise Unsupported("arithmetic on %s, %s" % (type(a).__name__, type(b).__name__))
        if isinstance(a, float):
            a = Fraction(str(a))
        if isinstance(b, float):
            b = Fraction(str(b))
        both_py = not is_z3(a) and not is_z3(b)
        real = is_realish(a) or is_realish(b)
        if isinstance(op, ast.Add):
            return a + b if both_py else simp((ZR(a) + ZR(b)) if real else (Z(a) + Z(b)))
        if isinstance(op, ast.Sub):
            return a - b if both_py else simp((ZR(a) - ZR(b)) if real else (Z(a) - Z(b)))
        if isinstance(op, ast.Mult):
            return a * b if both_py else simp((ZR(a) * ZR(b)) if real else (Z(a) * Z(b)))
        if isinstance(op, ast.Div):
            self.oblige(st, self.cmp(ast.NotEq(), b, 0), "division_by_zero", node)
            if both_py:
                return Fraction(a) / Fraction(b)
            return simp(ZR(a) / ZR(b))
        if isinstance(op, (ast.FloorDiv, ast.Mod)):
            if real:
                raise Unsupported("floor division on reals")
            self.oblige(st, self.cmp(ast.NotEq(), b, 0), "division_by_zero", node)
            if both_py:
                return a // b if isinstance(op, ast.FloorDiv) else a % b
            za, zb = Z(a), Z(b)
            positive = isinstance(b, int) and b > 0
            if not positive and not st.spec_mode:
                # divisor positive on this path: z3's div/mod coincide with Python's // and %
                can_pos, can_nonpos = self.decide(st, simp(zb > 0))
                positive = not can_nonpos
            elif not positive:
                can_pos, can_nonpos = self.decide(st, simp(zb > 0))
                positive = not can_nonpos
            if isinstance(op, ast.FloorDiv):
                if positive:
                    return simp(za / zb)
                return simp(z3.If(zb > 0, za / zb, (-za) / (-zb)))
            if positive:
                return simp(za % zb)
            return simp(z3.If(zb > 0, za % zb, -((-za) % (-zb))))
        if isinstance(op, ast.Pow):
            if isinstance(a, int) and isinstance(b, int) and 0 <= b <= 4096:
                return a ** b
            if isinstance(b, int) and 0 <= b <= 4:
                r = 1
                for _ in range(b):
                    r = self.arith(ast.Mult(), r, a, st, node)
                return r
            raise Unsupported("power with symbolic exponent")
        raise Unsupported("operator %s" % type(op).__name__)

    def list_concat(self, a, b, st, node):
        if isinstance(a, ListLit):
            a = self.to_symlist(a, st, node)
        if isinstance(b, ListLit):
            b = self.to_symlist(b, st, node)
        if isinstance(a, EmptyList):
            return b
        if isinstance(b, EmptyList):
            return a
        if a.tup or b.tup or len(a.arrs) != 1 or len(b.arrs) != 1:
            raise Unsupported("concatenation of lists of tuples")
        real = "real" in (a.etypes[0], b.etypes[0])
        i = z3.Int("c!%d" % next(self.fresh_id))
        ea, eb = z3.Select(a.arrs[0], i), z3.Select(b.arrs[0], i - Z(a.length))
        if real:
            ea, eb = ZR(ea), ZR(eb)
        elif a.etypes[0] != b.etypes[0]:
            raise Unsupported("concatenation of lists of different element types")
        arr = z3.Lambda([i], z3.If(i < Z(a.length), ea, eb))
        return SymList([arr], self.arith(ast.Add(), a.length, b.length, st, node),
                       ["real" if real else a.etypes[0]], False,
                       parts=tuple(a.parts or (a,)) + tuple(b.parts or (b,)))

    def cmp(self, op, a, b):
        """Comparison of two values -> bool / BoolRef (no definedness checks)."""
        if isinstance(op, (ast.Eq, ast.NotEq, ast.Is, ast.IsNot)):
            r = self.equal(a, b)
            return Not(r) if isinstance(op, (ast.NotEq, ast.IsNot)) else r
        if isinstance(a, bool):
            a = int(a)
        if isinstance(b, bool):
            b = int(b)
        if isinstance(a, Inf) or isinstance(b, Inf):
            # x < inf is True for finite x, inf < x False
            ai, bi = isinstance(a, Inf), isinstance(b, Inf)
            if isinstance(op, ast.Lt):
                return (not ai) and bi
            if isinstance(op, ast.LtE):
                return bi
            if isinstance(op, ast.Gt):
                return ai and not bi
            if isinstance(op, ast.GtE):
                return ai
        if not (is_numish(a) and is_numish(b)):
            raise Unsupported("ordering of %s and %s" % (type(a).__name__, type(b).__name__))
        if isinstance(a, float):
            a = Fraction(str(a))
        if isinstance(b, float):
            b = Fraction(str(b))
        if not is_z3(a) and not is_z3(b):
            return {ast.Lt: a < b, ast.LtE: a <= b, ast.Gt: a > b, ast.GtE: a >= b}[type(op)]
        real = is_realish(a) or is_realish(b)
        za, zb = (ZR(a), ZR(b)) if real else (Z(a), Z(b))
        if isinstance(op, ast.Lt):
            return simp(za < zb)
        if isinstance(op, ast.LtE):
            return simp(za <= zb)
        if isinstance(op, ast.Gt):
            return simp(za > zb)
        if isinstance(op, ast.GtE):
            return simp(za >= zb)
        raise Unsupported("comparison %s" % type(op).__name__)

    def equal(self, a, b):
        if isinstance(a, Opt) and b is None:
            return a.isnone
        if isinstance(b, Opt) and a is None:
            return b.isnone
        if isinstance(a, Opt) or isinstance(b, Opt):
            oa, ob = to_opt(a) if (a is None or isinstance(a, Opt)) else Opt(False, a), \
                to_opt(b) if (b is None or isinstance(b, Opt)) else Opt(False, b)
            both_none = And(oa.isnone, ob.isnone)
            neither = And(Not(oa.isnone), Not(ob.isnone))
            if isinstance(oa.val, (int, z3.ExprRef)) and isinstance(ob.val, (int, z3.ExprRef)) \
                    and not isinstance(oa.val, bool) and not isinstance(ob.val, bool):
                return Or(both_none, And(neither, self.equal(oa.val, ob.val)))
            return Or(both_none, And(neither, self.equal(oa.val, ob.val)))
        if a is None or b is None:
            return a is None and b is None
        if isinstance(a, EnumV) or isinstance(b, EnumV):
            if not (isinstance(a, EnumV) and isinstance(b, EnumV)) or a.sort != b.sort:
                return False
            if not is_z3(a.code) and not is_z3(b.code):
                return a.code == b.code
            return simp(Z(a.code) == Z(b.code))
        if isinstance(a, tuple) or isinstance(b, tuple):
            if not (isinstance(a, tuple) and isinstance(b, tuple)) or len(a) != len(b):
                return False
            return And(*[self.equal(x, y) for x, y in zip(a, b)])
        if isinstance(a, ActionV) or isinstance(b, ActionV):
            raise Unsupported("== on actions goes through the __eq__ contract")
        if isinstance(a, Inf) or isinstance(b, Inf):
            return isinstance(a, Inf) and isinstance(b, Inf)
        if is_boolish(a) and is_boolish(b):
            if not is_z3(a) and not is_z3(b):
                return a == b
            return simp(ZB(a) == ZB(b))
        if is_boolish(a) or is_boolish(b):
            # bool vs int: True == 1
            a2 = (z3.If(ZB(a), 1, 0) if is_z3(a) else int(a)) if is_boolish(a) else a
            b2 = (z3.If(ZB(b), 1, 0) if is_z3(b) else int(b)) if is_boolish(b) else b
            return self.equal(a2, b2)
        if is_numish(a) and is_numish(b):
            if isinstance(a, float):
                a = Fraction(str(a))
            if isinstance(b, float):
                b = Fraction(str(b))
            if not is_z3(a) and not is_z3(b):
                return a == b
            real = is_realish(a) or is_realish(b)
            return simp((ZR(a) == ZR(b)) if real else (Z(a) == Z(b)))
        if isinstance(a, TypeV) or isinstance(b, TypeV):
            if isinstance(a, TypeV) and isinstance(b, TypeV):
                return self.equal(a.code, b.code)
            return False
        if isinstance(a, Obj) and isinstance(b, Obj):
            return a.oid == b.oid
        if isinstance(a, SymSet) and isinstance(b, SymSet):
            return And(simp(a.arr == b.arr), self.equal(a.card, b.card))
        if isinstance(a, IndexV) and isinstance(b, IndexV):
            return And(self.equal(a.ip, b.ip), self.equal(a.i0, b.i0), Or(Not(a.ip), self.equal(a.i1, b.i1)))
        if isinstance(a, ObjList) and isinstance(b, ObjList) and a.cls == b.cls:
            return And(self.equal(a.length, b.length),
                       *[simp(a.arrays[k] == b.arrays[k]) for k in sorted(a.arrays)])
        if isinstance(a, ClassRef) and isinstance(b, ClassRef):
            return a.name == b.name
        raise Unsupported("equality of %s and %s" % (type(a).__name__, type(b).__name__))

    def truth(self, v, st, node):
        if is_boolish(v):
            return v
        if v is None:
            return False
        if isinstance(v, Opt):
            if is_boolish(v.val):
                return And(Not(v.isnone), v.val)
            return And(Not(v.isnone), self.cmp(ast.NotEq(), v.val, 0))
        if is_intish(v):
            return self.cmp(ast.NotEq(), v, 0)
        if isinstance(v, SymList):
            return self.cmp(ast.Gt(), v.length, 0)
        if isinstance(v, EmptyList):
            return False
        raise Unsupported("truth value of %s" % type(v).__name__)

    # ------------------------------------------------------------------ expressions
    def ev(self, node, st, ext_ok=False):
        m = getattr(self, "ev_" + type(node).__name__, None)
        if m is None:
            raise Unsupported("expression %s at line %s" % (type(node).__name__, getattr(node, "lineno", "?")))
        v = m(node, st)
        if isinstance(v, ExtV) and not ext_ok:
            # arithmetic on float('inf') is outside the encoding except in sums and comparisons:
            # anywhere else the table entry that was read must have been filled
            self.oblige(st, Not(v.inf), "table_entry_is_finite", node)
            return v.val
        return v

    def ev_Constant(self, n, st):
        v = n.value
        if isinstance(v, str):
            return EnumV("str", self.reg.intern(v))
        if isinstance(v, float):
            return Fraction(str(v))
        if isinstance(v, (int, bool)) or v is None:
            return v
        raise Unsupported("constant %r" % (v,))

    def ev_Name(self, n, st):
        v, i = st.lookup(n.id)
        if i is not None:
            return v
        g = self.global_name(n.id, st)
        if g is not NOTFOUND:
            return g
        raise Unsupported("name %s is not bound (NameError or unsupported global) at line %s"
                          % (n.id, getattr(n, "lineno", "?")))

    def global_name(self, name, st):
        if name in ("StorageType", "StepType", "sys"):
            return ClassRef(name)
        if name in ACTION_KINDS or name in ("CheckpointAction", "CheckpointSchedule"):
            return ClassRef(name)
        if name in ("True", "False"):
            return name == "True"
        if name == "MAXSIZE":
            return MAXSIZE
        if name in self.contract.globals:
            return self.ev(ast.parse(self.contract.globals[name], mode="eval").body, st)
        if name in self.reg.classes:
            return ClassRef(name)
        if name in self.reg.class_aliases:
            return ClassRef(self.reg.class_aliases[name])
        if name == "warnings":
            return ClassRef("warnings")
        if name == "np":
            return ClassRef("np")
        fi = st.frames[-1].func or self.fi
        consts = self.index.module_consts.get(fi.module, {})
        if name in consts and not st.spec_mode:
            node = consts[name]
            try:
                return self.ev(node, st)
            except Unsupported:
                return NOTFOUND
        if name in self.reg.spec_functions:
            return self.reg.spec_functions[name]
        if name in self.reg.spec_constants:
            return self.reg.spec_constants[name]
        return NOTFOUND

    def ev_Attribute(self, n, st):
        base = self.ev(n.value, st)
        return self.getattr_(base, n.attr, st, n)

    def getattr_(self, base, attr, st, node):
        if isinstance(base, Opt) and isinstance(base.val, Obj):
            self.oblige(st, Not(base.isnone), "attribute_of_none", node)
            base = base.val
        if isinstance(base, Obj):
            fields = st.heap[base.oid]
            if attr in fields:
                pres = fields.get("?" + attr, True)
                if pres is not True:
                    self.oblige(st, pres, "attribute_%s_exists" % attr, node)
                return fields[attr]
            # property / method of the class
            prop = self.reg.property_contract(base.cls, attr)
            if prop is not None:
                return self.call_contract(prop, [base], {}, st, node)
            if self.reg.method_contract(base.cls, attr) is not None:
                return ("boundmethod", base, attr)
            raise Unsupported("attribute %s of %s (no field, no contract)" % (attr, base.cls))
        if isinstance(base, RowRef) and attr in base.lst.ftypes:
            if not st.spec_mode:
                base = self.row_object(base, st, node)
                return st.heap[base.oid][attr]
            return self.row_field(base.lst, base.row, attr)
        if isinstance(base, ClassRef):
            if base.name == "StorageType":
                if attr in STORAGE_CODES:
                    return EnumV("StorageType", STORAGE_CODES[attr])
            if base.name == "StepType" and attr in STEPTYPE:
                return STEPTYPE[attr]
            if base.name == "sys" and attr == "maxsize":
                return MAXSIZE
            if base.name == "np" and attr in ("int64", "zeros"):
                return ClassRef("np." + attr)
            raise Unsupported("attribute %s.%s" % (base.name, attr))
        if isinstance(base, ActionV):
            names = ACTION_KINDS[base.kind]
            if attr in names:
                return base.args[names.index(attr)]
            if attr == "args":
                return tuple(base.args)
            raise Unsupported("action attribute " + attr)
        if isinstance(base, NdArray3) and attr in ("d0", "d1"):
            return getattr(base, attr)
        if isinstance(base, (SymList, EmptyList, SymSet, ListLit)):
            return ("listmethod", base, attr, node)
        raise Unsupported("attribute %s on %s" % (attr, type(base).__name__))

    def ev_BinOp(self, n, st):
        ext = isinstance(n.op, ast.Add)
        a = self.ev(n.left, st, ext_ok=ext)
        b = self.ev(n.right, st, ext_ok=ext)
        if isinstance(a, ExtV) or isinstance(b, ExtV):
            if isinstance(a, (SymList, ListLit, EmptyList)) or isinstance(b, (SymList, ListLit, EmptyList)):
                raise Unsupported("list of extended reals")
            ai, av = (a.inf, a.val) if isinstance(a, ExtV) else (False, a)
            bi, bv = (b.inf, b.val) if isinstance(b, ExtV) else (False, b)
            return ExtV(Or(ai, bi), self.arith(ast.Add(), av, bv, st, n))     # inf + x == inf
        return self.arith(n.op, a, b, st, n)

    def ev_UnaryOp(self, n, st):
        v = self.ev(n.operand, st)
        if isinstance(n.op, ast.Not):
            return Not(self.truth(v, st, n))
        if isinstance(n.op, ast.USub):
            return self.arith(ast.Sub(), 0, v, st, n)
        if isinstance(n.op, ast.UAdd):
            return v
        raise Unsupported("unary " + type(n.op).__name__)

    def ev_BoolOp(self, n, st):
        vals = []
        pushed = 0
        try:
            for sub in n.values:
                v = self.truth(self.ev(sub, st), st, sub)
                vals.append(v)
                # later operands are only evaluated when this one does not decide
                g = v if isinstance(n.op, ast.And) else Not(v)
                if g is False:
                    break
                if g is not True:
                    if not st.spec_mode:
                        # (code only: in a specification every operand is total, and a solver call
                        # per connective would dominate the generation time)
                        can, _cannot = self.decide(st, g)
                        if not can:
                            break      # the path condition already decides this operand: short-circuit
                    st.guards.append(g)
                    pushed += 1
        finally:
            for _ in range(pushed):
                st.guards.pop()
        return And(*vals) if isinstance(n.op, ast.And) else Or(*vals)

    def ev_Compare(self, n, st):
        ordering = all(isinstance(op, (ast.Lt, ast.LtE, ast.Gt, ast.GtE)) for op in n.ops)
        left = self.ev(n.left, st, ext_ok=ordering)
        res = []
        for op, rn in zip(n.ops, n.comparators):
            right = self.ev(rn, st, ext_ok=ordering)
            if isinstance(left, ExtV) or isinstance(right, ExtV):
                res.append(self.ext_compare(op, left, right))
            else:
                res.append(self.compare_op(op, left, right, st, n))
            left = right
        return And(*res)

    def ext_compare(self, op, a, b):
        """Ordering of extended reals (only +inf occurs)."""
        ai, av = (a.inf, a.val) if isinstance(a, ExtV) else (False, a)
        bi, bv = (b.inf, b.val) if isinstance(b, ExtV) else (False, b)
        if isinstance(op, (ast.Gt, ast.GtE)):
            ai, av, bi, bv = bi, bv, ai, av
            op = ast.Lt() if isinstance(op, ast.Gt) else ast.LtE()
        if isinstance(op, ast.Lt):
            return And(Not(ai), Or(bi, self.cmp(ast.Lt(), av, bv)))
        return Or(bi, And(Not(ai), self.cmp(ast.LtE(), av, bv)))

    def compare_op(self, op, a, b, st, node):
        if isinstance(op, (ast.Is, ast.IsNot)) and not st.spec_mode:
            def number_or_string(x):
                x = x.val if isinstance(x, Opt) else x
                return is_numish(x) and not is_boolish(x) or (isinstance(x, EnumV) and x.sort == "str")
            if number_or_string(a) and number_or_string(b):
                # `is` on integers / floats / strings compares object identity, which CPython only
                # happens to make coincide with equality for small integers and interned strings
                self.oblige(st, False, "identity_comparison_of_values", node)
        if isinstance(op, (ast.In, ast.NotIn)):
            r = self.contains(b, a, st, node)
            return Not(r) if isinstance(op, ast.NotIn) else r
        if isinstance(op, (ast.Lt, ast.LtE, ast.Gt, ast.GtE)):
            for x in (a, b):
                if isinstance(x, Opt):
                    self.oblige(st, Not(x.isnone), "none_in_ordering", node)
                elif x is None:
                    self.oblige(st, False, "none_in_ordering", node)
            a = a.val if isinstance(a, Opt) else a
            b = b.val if isinstance(b, Opt) else b
            if a is None or b is None:
                return False
        return self.cmp(op, a, b)

    def contains(self, cont, x, st, node):
        if isinstance(cont, SymMap2):
            if not (isinstance(x, tuple) and len(x) == 2):
                raise Unsupported("membership of a non-pair in a pair-keyed dict")
            return simp(z3.Select(cont.present, Z(x[0]), Z(x[1])))
        if isinstance(cont, DictV):
            key = self.dict_key(x)
            if key is None:
                raise Unsupported("membership of a symbolic key in a dict")
            return key in cont.items
        if isinstance(cont, (tuple, list)):
            return Or(*[self.equal(x, y) for y in cont])
        if isinstance(cont, frozenset):
            return Or(*[self.equal(x, y) for y in cont])
        if isinstance(cont, ClassRef):
            if cont.name == "StorageType":
                return isinstance(x, EnumV) and x.sort == "StorageType"
            raise Unsupported("in " + cont.name)
        if isinstance(cont, SymSet):
            return simp(z3.Select(cont.arr, self.set_key(x, st, node)))
        if isinstance(cont, EmptyList):
            return False
        if isinstance(cont, ActionV):
            # Forward / Reverse __contains__ goes through its contract
            c = self.reg.method_contract(cont.kind, "__contains__")
            return self.call_contract(c, [cont, x], {}, st, node)
        if isinstance(cont, SymList):
            i = z3.Int("k!%d" % next(self.fresh_id))
            if cont.tup:
                raise Unsupported("membership in list of tuples")
            ex = self.elem_to_z3(x)
            return z3.Exists([i], z3.And(i >= 0, i < Z(cont.length), z3.Select(cont.arrs[0], i) == ex))
        raise Unsupported("membership in %s" % type(cont).__name__)

    def set_key(self, x, st, node):
        """Element of a set as an integer key: ints as they are; (storage, n) pairs as 4*n + code
        (injective on the four StorageType members)."""
        if is_intish(x):
            return Z(x)
        if isinstance(x, tuple) and len(x) == 2 and is_intish(x[1]):
            a = x[0]
            if isinstance(a, Opt) and isinstance(a.val, EnumV):
                self.oblige(st, Not(a.isnone), "set_key_storage_not_none", node)
                a = a.val
            if isinstance(a, EnumV) and a.sort == "StorageType":
                return simp(4 * Z(x[1]) + Z(a.code))
        raise Unsupported("set element that is neither an int nor a (storage, step) pair")

    def elem_to_z3(self, x):
        if isinstance(x, EnumV):
            return Z(x.code)
        return Z(x)

    def ev_IfExp(self, n, st):
        c = self.truth(self.ev(n.test, st), st, n)
        if c is True:
            return self.ev(n.body, st)
        if c is False:
            return self.ev(n.orelse, st)
        st.guards.append(c)
        try:
            a = self.ev(n.body, st)
        finally:
            st.guards.pop()
        st.guards.append(Not(c))
        try:
            b = self.ev(n.orelse, st)
        finally:
            st.guards.pop()
        return Ite(c, a, b)

    def ev_Tuple(self, n, st):
        return tuple(self.ev(e, st) for e in n.elts)

    def ev_List(self, n, st):
        if not n.elts:
            return EmptyList()
        return ListLit(self.ev(e, st) for e in n.elts)

    def to_symlist(self, lit, st, node):
        lst = EmptyList()
        for v in lit:
            lst = self.list_append(lst, v, st, node)
        return lst

    def ev_Set(self, n, st):
        return frozenset(self.ev(e, st) for e in n.elts) if all(
            isinstance(e, ast.Constant) for e in n.elts) else tuple(self.ev(e, st) for e in n.elts)

    def dict_key(self, kk):
        if isinstance(kk, EnumV) and kk.sort == "str" and isinstance(kk.code, int):
            return self.reg.string_of(kk.code)
        if isinstance(kk, int) and not isinstance(kk, bool):
            return kk
        return None

    def ev_Dict(self, n, st):
        d = {}
        for k, v in zip(n.keys, n.values):
            if k is None:
                raise Unsupported("dict unpacking in a literal")
            key = self.dict_key(self.ev(k, st))
            if key is None:
                raise Unsupported("dict key that is not a constant string or int")
            d[key] = self.ev(v, st)
        return DictV(d)

    def ev_Lambda(self, n, st):
        return ("lambda", n, len(st.frames) - 1)

    def ev_JoinedStr(self, n, st):
        return EnumV("str", self.reg.intern("<fstring>"))

    def ev_GeneratorExp(self, n, st):
        return self.comprehension(n, st)

    def ev_ListComp(self, n, st):
        return self.comprehension(n, st)

    def grid_literal(self, n, st):
        """[[[float("inf")] * cols for _ in range(rows)] for i in range(K)] with concrete K: a
        tuple of K tables, every entry inf."""
        if len(n.generators) != 1 or n.generators[0].ifs or not isinstance(n.elt, ast.ListComp):
            return None
        inner = n.elt
        if len(inner.generators) != 1 or inner.generators[0].ifs:
            return None
        cell = inner.elt
        if not (isinstance(cell, ast.BinOp) and isinstance(cell.op, ast.Mult) and isinstance(cell.left, ast.List)
                and len(cell.left.elts) == 1 and isinstance(n.generators[0].target, ast.Name)):
            return None
        it = self.ev(n.generators[0].iter, st)
        if not (isinstance(it, RangeV) and isinstance(it.lo, int) and isinstance(it.hi, int) and it.step == 1):
            return None
        out = []
        for i in range(it.lo, it.hi):
            frame = Frame({n.generators[0].target.id: i}, len(st.frames) - 1, st.frames[-1].func)
            st.frames.append(frame)
            try:
                init = self.ev(cell.left.elts[0], st)
                cols = self.ev(cell.right, st)
                rng = self.ev(inner.generators[0].iter, st)
            finally:
                st.frames.pop()
            if not isinstance(init, Inf) or not isinstance(rng, RangeV) or rng.step != 1 or rng.lo != 0:
                return None
            self.oblige(st, And(self.cmp(ast.GtE(), cols, 0), self.cmp(ast.GtE(), rng.hi, 0)),
                        "table_shape_nonnegative", n)
            rowb = z3.K(z3.IntSort(), z3.BoolVal(True))
            rowr = z3.K(z3.IntSort(), z3.RealVal(0))
            out.append(Grid2(z3.K(z3.IntSort(), rowb), z3.K(z3.IntSort(), rowr), rng.hi, cols))
        return tuple(out)

    def comprehension(self, n, st):
        g = self.grid_literal(n, st) if isinstance(n, ast.ListComp) else None
        if g is not None:
            return g
        if len(n.generators) != 1 or n.generators[0].ifs:
            raise Unsupported("comprehension shape")
        gen = n.generators[0]
        it = self.ev(gen.iter, st)
        if not isinstance(it, RangeV) or it.step != 1 or not isinstance(gen.target, ast.Name):
            raise Unsupported("comprehension over non-range")
        n_items = Ite(self.cmp(ast.Gt(), it.hi, it.lo), self.arith(ast.Sub(), it.hi, it.lo, st, n), 0)
        if n_items == 0:
            return EmptyList()
        uses_target = any(isinstance(e, ast.Name) and e.id == gen.target.id for e in ast.walk(n.elt))
        # [Cls() for _ in range(k)]: k default-constructed objects
        if isinstance(n.elt, ast.Call) and isinstance(n.elt.func, ast.Name) and \
                n.elt.func.id in self.reg.classes and not uses_target and not st.spec_mode:
            cls = n.elt.func.id
            proto = self.ev(n.elt, st)          # one constructor call: obligations of __init__
            arrays = {}
            for f, ty in self.reg.fields_of(cls).items():
                v = st.heap[proto.oid][f]
                if isinstance(ty, tuple) and ty[0] in ("list", "tuplelist"):
                    if isinstance(v, EmptyList):
                        v = SymList([z3.K(z3.IntSort(), self.default_of(ty[1][0]))], 0, ty[1], False)
                    arrays[f] = z3.K(z3.IntSort(), v.arrs[0])
                    arrays[f + ".len"] = z3.K(z3.IntSort(), Z(v.length))
                else:
                    arrays[f] = z3.K(z3.IntSort(), ZB(v) if is_boolish(v) else Z(v))
            del st.heap[proto.oid]
            return ObjList(cls, arrays, n_items, self.reg.fields_of(cls))
        # general case: the element expression is evaluated once for an arbitrary index of the
        # range (a fresh constant, under the guard lo <= j < hi), so that its definedness
        # obligations are generated for every element; the list is then the lambda-array.
        j = z3.Int("j!%d" % next(self.fresh_id))
        jval = simp(j + Z(it.lo))
        frame = Frame({gen.target.id: jval}, len(st.frames) - 1, st.frames[-1].func)
        st.frames.append(frame)
        st.guards.append(And(self.cmp(ast.GtE(), jval, it.lo), self.cmp(ast.Lt(), jval, it.hi)))
        try:
            elt = self.ev(n.elt, st)
        finally:
            st.guards.pop()
            st.frames.pop()
        if isinstance(elt, EnumV):
            arr = z3.Lambda([j], Z(elt.code))
            ety = "storage" if elt.sort == "StorageType" else "str"
        elif is_numish(elt):
            arr = z3.Lambda([j], Z(elt))
            ety = "real" if is_realish(elt) else "int"
        else:
            raise Unsupported("comprehension element type")
        return SymList([arr], n_items, [ety], tup=False)

    def nd_index(self, arr, sl, st, node):
        """(a, b, k) / (a, b) read of an NdArray3; negative indices would wrap in numpy and are
        excluded by the bounds obligation."""
        elts = sl.elts if isinstance(sl, ast.Tuple) else [sl]
        if len(elts) not in (2, 3) or any(isinstance(e, ast.Slice) for e in elts):
            raise Unsupported("array read shape")
        a = self.ev(elts[0], st)
        b = self.ev(elts[1], st)
        self.oblige(st, And(self.cmp(ast.GtE(), a, 0), self.cmp(ast.Lt(), a, arr.d0),
                            self.cmp(ast.GtE(), b, 0), self.cmp(ast.Lt(), b, arr.d1)),
                    "array_index_in_bounds", node)
        cell = [simp(z3.Select(z3.Select(c, Z(a)), Z(b))) for c in arr.comps]
        if len(elts) == 2:
            return tuple(cell)
        k = self.ev(elts[2], st)
        if not isinstance(k, int) or not (0 <= k <= 2):
            raise Unsupported("array last-axis index")
        return cell[k]

    def ev_Subscript(self, n, st):
        base = self.ev(n.value, st)
        if isinstance(base, NdArray3):
            return self.nd_index(base, n.slice, st, n)
        if isinstance(n.slice, ast.Slice):
            sl = n.slice
            if isinstance(base, tuple) and sl.step is None:
                lo = self.ev(sl.lower, st) if sl.lower else None
                hi = self.ev(sl.upper, st) if sl.upper else None
                if (lo is None or isinstance(lo, int)) and (hi is None or isinstance(hi, int)):
                    return base[lo:hi]
            raise Unsupported("slice")
        idx = self.ev(n.slice, st)
        return self.index_value(base, idx, st, n)

    def index_value(self, base, idx, st, node):
        if isinstance(base, SymMap2):
            if not (isinstance(idx, tuple) and len(idx) == 2):
                raise Unsupported("pair-keyed dict subscript")
            self.oblige(st, simp(z3.Select(base.present, Z(idx[0]), Z(idx[1]))), "key_present", node)
            return simp(z3.Select(base.val, Z(idx[0]), Z(idx[1])))
        if isinstance(base, Opt) and isinstance(base.val, ObjList):
            self.oblige(st, Not(base.isnone), "none_is_not_subscriptable", node)
            base = base.val
        if isinstance(base, ObjList):
            return RowRef(base, idx, node.value if isinstance(node, ast.Subscript) else None)
        if isinstance(base, RowRef):
            if st.spec_mode:
                # specification read: total (no bounds obligation), through the class's content field
                f = self.reg.classes[base.lst.cls].index_field
                return simp(z3.Select(z3.Select(base.lst.arrays[f], Z(base.row)), Z(idx)))
            return self.row_call(st, base, "__getitem__", [idx], {}, node)
        if isinstance(base, Opt) and isinstance(base.val, Obj):
            self.oblige(st, Not(base.isnone), "none_is_not_subscriptable", node)
            base = base.val
        if isinstance(base, Obj) and self.reg.method_contract(base.cls, "__getitem__") is not None:
            if st.spec_mode:
                f = self.reg.classes[base.cls].index_field
                lst = st.heap[base.oid][f]
                if isinstance(lst, EmptyList):
                    return 0
                return self.list_get(lst, idx)
            return self.call_contract(self.reg.method_contract(base.cls, "__getitem__"), [base, idx], {}, st, node)
        if isinstance(base, DictV):
            key = self.dict_key(idx)
            if key is not None:
                if key not in base.items:
                    self.oblige(st, False, "key_present", node)
                    return 0
                return base.items[key]
            if is_intish(idx):
                keys = [k for k in base.items if isinstance(k, int)]
                self.oblige(st, Or(*[self.equal(idx, k) for k in keys]), "key_present", node)
                res = base.items[keys[-1]]
                for k in reversed(keys[:-1]):
                    res = Ite(self.equal(idx, k), base.items[k], res)
                return res
            raise Unsupported("dict subscript with a symbolic non-int key")
        if isinstance(base, Opt):
            self.oblige(st, Not(base.isnone), "none_is_not_subscriptable", node)
            base = base.val
        if isinstance(base, tuple):
            if isinstance(idx, int):
                if not (-len(base) <= idx < len(base)):
                    self.oblige(st, False, "index_in_range", node)
                    return base[0] if base else None
                return base[idx]
            # symbolic index into a concrete tuple
            self.oblige(st, And(self.cmp(ast.GtE(), idx, -len(base)), self.cmp(ast.Lt(), idx, len(base))),
                        "index_in_range", node)
            if not st.spec_mode and is_intish(idx):
                # the path condition may force one position (K != 0 and 0 <= K <= 1)
                possible = [k for k in range(-len(base), len(base))
                            if self.decide(st, self.equal(idx, k), strong=True)[0]]
                if len(possible) == 1:
                    return base[possible[0]]
            if any(not (is_numish(x) or is_boolish(x) or isinstance(x, EnumV)) for x in base):
                raise Unsupported("symbolic index into a tuple of %s" % type(base[0]).__name__)
            res = base[-1]
            for k in range(len(base) - 2, -1, -1):
                res = Ite(Or(self.equal(idx, k), self.equal(idx, k - len(base))), base[k], res)
            return res
        if isinstance(base, EmptyList):
            self.oblige(st, False, "index_in_range", node)
            return 0
        if isinstance(base, Grid2):
            if not st.spec_mode:
                self.oblige(st, And(self.cmp(ast.GtE(), idx, 0), self.cmp(ast.Lt(), idx, base.d0)),
                            "index_in_range", node)
            return GridRow(base, idx)
        if isinstance(base, GridRow):
            g = base.grid
            if not st.spec_mode:
                self.oblige(st, And(self.cmp(ast.GtE(), idx, 0), self.cmp(ast.Lt(), idx, g.d1)),
                            "index_in_range", node)
                infbit = simp(z3.Select(z3.Select(g.inf, Z(base.row)), Z(idx)))
                if infbit is not False:
                    return ExtV(infbit, simp(z3.Select(z3.Select(g.val, Z(base.row)), Z(idx))))
            return simp(z3.Select(z3.Select(g.val, Z(base.row)), Z(idx)))
        if isinstance(base, IndexV):
            if not isinstance(idx, int) or idx not in (0, 1):
                raise Unsupported("operation index subscript")
            self.oblige(st, base.ip, "index_is_a_pair", node)
            return base.i0 if idx == 0 else base.i1
        if isinstance(base, SymList):
            ln = base.length
            if isinstance(idx, Opt):
                raise Unsupported("optional index")
            self.oblige(st, And(self.cmp(ast.GtE(), idx, self.arith(ast.Sub(), 0, ln, st, node)),
                                self.cmp(ast.Lt(), idx, ln)), "index_in_range", node)
            if isinstance(idx, int) and idx < 0:
                pos = self.arith(ast.Add(), ln, idx, st, node)
            elif isinstance(idx, int) or st.spec_mode:
                # (specifications index from the front: the sidecar never uses negative indices, and
                # a wrap-around if-then-else inside every quantified invariant hides its triggers)
                pos = idx
            elif not self.decide(st, self.cmp(ast.Lt(), idx, 0))[0]:
                pos = idx             # the path condition excludes a negative index
            else:
                pos = Ite(self.cmp(ast.Lt(), idx, 0), self.arith(ast.Add(), ln, idx, st, node), idx)
            return self.list_get(base, pos)
        raise Unsupported("subscript of %s" % type(base).__name__)

    def list_get(self, lst, pos):
        vals = []
        for arr, ty in zip(lst.arrs, lst.etypes):
            e = simp(z3.Select(arr, Z(pos)))
            if ty == "storage":
                vals.append(EnumV("StorageType", e))
            elif ty == "str":
                vals.append(EnumV("str", e))
            else:
                vals.append(e)
        return tuple(vals) if lst.tup else vals[0]

    def type_of_value(self, v):
        if isinstance(v, EnumV):
            return "storage" if v.sort == "StorageType" else "str"
        if is_boolish(v):
            return "bool"
        if is_intish(v):
            return "int"
        if is_realish(v):
            return "real"
        raise Unsupported("list element of type %s" % type(v).__name__)

    def list_append(self, lst, v, st, node):
        comps = list(v) if isinstance(v, tuple) else [v]
        if isinstance(lst, EmptyList):
            etypes = [self.type_of_value(c) for c in comps]
            arrs = [z3.K(z3.IntSort(), self.default_of(t)) for t in etypes]
            lst = SymList(arrs, 0, etypes, tup=isinstance(v, tuple))
        if lst.immutable:
            self.oblige(st, False, "append_to_tuple", node)
        if len(comps) != len(lst.arrs):
            raise Unsupported("heterogeneous list")
        arrs = [simp(z3.Store(a, Z(lst.length), self.elem_to_z3(c))) for a, c in zip(lst.arrs, comps)]
        return SymList(arrs, self.arith(ast.Add(), lst.length, 1, st, node), lst.etypes, lst.tup)

    def default_of(self, t):
        if t == "bool":
            return z3.BoolVal(False)
        if t == "real":
            return z3.RealVal(0)
        return z3.IntVal(0)

    # ------------------------------------------------------------------ calls
    def ev_Call(self, n, st):
        f = n.func
        # method calls on values
        if isinstance(f, ast.Attribute):
            # super().__init__(...)
            if isinstance(f.value, ast.Call) and isinstance(f.value.func, ast.Name) \
                    and f.value.func.id == "super":
                selfv, _ = st.lookup("self")
                cls = self.reg.superclass(selfv.cls if isinstance(selfv, Obj) else None,
                                          st.frames[-1].func or self.fi)
                c = self.reg.method_contract(cls, f.attr, exact=True)
                if c is None:
                    raise Unsupported("super().%s has no contract" % f.attr)
                args = [self.ev(a, st) for a in n.args]
                kw = {k.arg: self.ev(k.value, st) for k in n.keywords}
                return self.call_contract(c, [selfv] + args, kw, st, n)
            base = self.ev(f.value, st)
            if isinstance(base, ClassRef) and base.name == "warnings":
                return None       # warnings.warn(...): no state effect (dropped, DESIGN.md 3.1)
            if isinstance(base, ClassRef) and base.name == "np" and f.attr == "zeros":
                shape = self.ev(n.args[0], st)
                if not (isinstance(shape, tuple) and len(shape) == 3 and shape[2] == 3):
                    raise Unsupported("np.zeros of a shape other than (d0, d1, 3)")
                zero = z3.K(z3.IntSort(), z3.K(z3.IntSort(), z3.IntVal(0)))
                self.oblige(st, And(self.cmp(ast.GtE(), shape[0], 0), self.cmp(ast.GtE(), shape[1], 0)),
                            "array_dimensions_nonnegative", n)
                return NdArray3([zero, zero, zero], shape[0], shape[1])
            if isinstance(base, RowRef):
                target = None
            else:
                target = self.getattr_(base, f.attr, st, n) if not isinstance(base, (SymList, EmptyList, SymSet, ListLit)) \
                    else ("listmethod", base, f.attr, n)
            args = [self.ev(a, st) for a in n.args]
            kw = {k.arg: self.ev(k.value, st) for k in n.keywords}
            if isinstance(base, RowRef):
                return self.row_call(st, base, f.attr, args, kw, n)
            if isinstance(target, tuple) and target and target[0] == "boundmethod":
                c = self.reg.method_contract(target[1].cls, target[2])
                return self.call_contract(c, [target[1]] + args, kw, st, n)
            if isinstance(target, tuple) and target and target[0] == "listmethod":
                return self.list_method(f.value, target[1], f.attr, args, st, n)
            raise Unsupported("call of attribute %s" % f.attr)
        if not isinstance(f, ast.Name):
            raise Unsupported("call of computed function")
        name = f.id
        # spec intrinsics
        if name in ("forall", "exists"):
            return self.quantifier(name, n, st)
        if name in ("forall_int", "exists_int", "forall_real"):   # unbounded: forall_int(lambda n, s: ...)
            lam = n.args[0]
            names = [a.arg for a in lam.args.args]
            mk = z3.Real if name == "forall_real" else z3.Int
            vs = [mk("%s!%d" % (a, next(self.fresh_id))) for a in names]
            st2 = st.fork()
            st2.frames.append(Frame(dict(zip(names, vs)), len(st2.frames) - 1, st.frames[-1].func))
            st2.spec_mode += 1
            body = ZB(self.truth(self.ev(lam.body, st2), st2, n))
            return z3.Exists(vs, body) if name == "exists_int" else z3.ForAll(vs, body)
        if name == "implies":
            a = self.truth(self.ev(n.args[0], st), st, n)
            if a is False:
                return True
            st.guards.append(a)
            try:
                b = self.truth(self.ev(n.args[1], st), st, n)
            finally:
                st.guards.pop()
            return Implies(a, b)
        if name == "old":
            return self.ev_old(n.args[0], st)
        if name == "OPCOST":
            # cost of an operation object, through the (pure) contract of Operation.cost
            op = self.ev(n.args[0], st)
            return self.call_contract(self.reg.contracts["seq.basic_functions.Operation.cost"], [op], {}, st, n)
        if name == "assume":
            c = self.truth(self.ev(n.args[0], st), st, n)
            st.assume(c)
            return None
        if name == "nondet_int":
            if self.concrete:
                return self.concrete_nondet.pop(0)
            v, cs = self.fresh("int", "nd")
            return v
        if name == "nondet_bool":
            v, cs = self.fresh("bool", "nd")
            return v
        args = [self.ev(a, st) for a in n.args]
        kw = {(k.arg if k.arg is not None else "**"): self.ev(k.value, st) for k in n.keywords}
        v, i = st.lookup(name)
        if isinstance(v, PartialV):
            kw2 = dict(v.kwargs)
            kw2.update(kw)
            return self.new_object(v.func.name, args, kw2, st, n)
        if name == "partial":
            if not args or not isinstance(args[0], ClassRef):
                raise Unsupported("partial() of a non-class")
            return PartialV(args[0], kw)
        if name == "dict" and len(args) == 1 and isinstance(args[0], DictV):
            return DictV(args[0].items)
        if i is None and name in self.reg.classes and self.reg.method_contract(name, "__init__") is not None \
                and name not in ACTION_KINDS:
            return self.new_object(name, args, kw, st, n)
        if isinstance(v, FuncV):
            raise Unsupported("closure %s called in expression position (only statement-level "
                              "calls are inlined)" % name)
        if isinstance(v, z3.FuncDeclRef):
            return self.apply_uf(v, args)
        if name in self.reg.spec_functions and (i is None):
            return self.apply_uf(self.reg.spec_functions[name], args)
        b = getattr(self, "builtin_" + name, None)
        if b is not None:
            return b(args, kw, st, n)
        if name in ACTION_KINDS:
            if kw:
                order = ACTION_KINDS[name]
                args = list(args) + [kw[k] for k in order[len(args):]]
            if len(args) != len(ACTION_KINDS[name]):
                raise Unsupported("wrong number of arguments to %s" % name)
            return ActionV(name, args)
        if name in self.contract.callees and (st.frames[-1].func or self.fi) is self.fi:
            c = self.reg.contracts[self.contract.callees[name]]
        else:
            c = self.reg.function_contract(name, (st.frames[-1].func or self.fi))
        if c is not None:
            args = [self.row_object(a, st, n) if isinstance(a, RowRef) else a for a in args]
            return self.call_contract(c, args, kw, st, n)
        raise Unsupported("call of %s (no contract, not a builtin)" % name)

    def apply_uf(self, fn, args):
        if self.concrete and fn.name() in getattr(self, "concrete_uf", {}):
            # cross-check mode: spec functions with an executable definition are evaluated by it
            vals = [a.code if isinstance(a, EnumV) else a for a in args]
            if all(isinstance(v, int) for v in vals):
                return self.concrete_uf[fn.name()](*vals)
        if self.concrete and fn.name() == "OPSUM" and isinstance(args[0], int) and \
                getattr(self, "concrete_oplist", None) is not None:
            # cross-check mode: the running sum over the concrete operation list, by its definition
            tot = ZR(0)
            dummy = State()
            for j in range(args[0]):
                tot = simp(tot + ZR(self.builtin_op_cost([RowRef(self.concrete_oplist, j, None)] + list(args[1:]),
                                                         {}, dummy, None)))
            return tot
        if self.concrete and fn.name() == "CNT" and isinstance(args[1], int):
            lst, k, v = args
            code = v.code if isinstance(v, EnumV) else v
            if isinstance(lst, EmptyList):
                return 0
            return sum(1 for i in range(k) if simp(z3.Select(lst.arrs[0], i)) == code)
        zs = []
        for a in args:
            if isinstance(a, EnumV):
                zs.append(Z(a.code))
            elif isinstance(a, SymList):
                zs.append(a.arrs[0])
            elif isinstance(a, EmptyList):
                zs.append(z3.K(z3.IntSort(), z3.IntVal(0)))
            elif isinstance(a, Opt):
                raise Unsupported("optional argument to spec function")
            else:
                zs.append(Z(a))
        # int -> real coercion
        zs = [z3.ToReal(z) if fn.domain(i) == z3.RealSort() and z3.is_int(z) else z
              for i, z in enumerate(zs)]
        return simp(fn(*zs))

    def ev_old(self, node, st):
        if st.old_heap is None:
            raise EngineError("old() outside a postcondition")
        st2 = st.fork()
        st2.heap = {k: dict(v) for k, v in st.old_heap.items()}
        if st.old_vars is not None:
            # entry values of the function's variables; quantifier-bound frames are kept
            st2.frames = [Frame(dict(st.old_vars), None, st.frames[0].func)] + st2.frames[1:]
        st2.spec_mode += 1
        return self.ev(node, st2)

    def quantifier(self, name, n, st):
        lo = self.ev(n.args[0], st)
        hi = self.ev(n.args[1], st)
        lam = n.args[2]
        if not isinstance(lam, ast.Lambda):
            raise Unsupported("quantifier body must be a lambda")
        names = [a.arg for a in lam.args.args]
        if self.concrete and isinstance(lo, int) and isinstance(hi, int):
            # cross-check mode: enumerate
            vals = []
            for tup in itertools.product(range(lo, hi), repeat=len(names)):
                st2 = st.fork()
                st2.frames.append(Frame(dict(zip(names, tup)), len(st2.frames) - 1, st.frames[-1].func))
                st2.spec_mode += 1
                vals.append(self.truth(self.ev(lam.body, st2), st2, n))
            return And(*vals) if name == "forall" else Or(*vals)
        # forall(a, b, lambda x: forall(c, d, lambda y: P)) becomes one quantifier over (x, y): a
        # nested quantifier hides the term P's trigger from the outer variable
        vs_all, rngs = [], []
        cur_n, cur_st = n, st
        while True:
            lam = cur_n.args[2]
            names = [a.arg for a in lam.args.args]
            lo = self.ev(cur_n.args[0], cur_st)
            hi = self.ev(cur_n.args[1], cur_st)
            vs = [z3.Int("%s!%d" % (a, next(self.fresh_id))) for a in names]
            st2 = cur_st.fork()
            st2.frames.append(Frame(dict(zip(names, vs)), len(st2.frames) - 1, cur_st.frames[-1].func))
            st2.spec_mode += 1
            vs_all += vs
            rngs += [z3.And(Z(lo) <= v, v < Z(hi)) for v in vs]
            b = lam.body
            if isinstance(b, ast.Call) and isinstance(b.func, ast.Name) and b.func.id == name and \
                    len(b.args) == 3 and isinstance(b.args[2], ast.Lambda):
                cur_n, cur_st = b, st2
                continue
            body = self.truth(self.ev(b, st2), st2, n)
            break
        rng = z3.And(*rngs)
        if name == "forall":
            return z3.ForAll(vs_all, z3.Implies(rng, ZB(body)))
        return z3.Exists(vs_all, z3.And(rng, ZB(body)))

    # builtins -----------------------------------------------------------
    def builtin_len(self, args, kw, st, n):
        v = args[0]
        if isinstance(v, ObjList):
            return v.length
        if isinstance(v, RowRef):
            if st.spec_mode:
                f = self.reg.classes[v.lst.cls].index_field
                return simp(z3.Select(v.lst.arrays[f + ".len"], Z(v.row)))
            return self.row_call(st, v, "__len__", [], {}, n)
        if isinstance(v, Opt) and isinstance(v.val, ObjList):
            self.oblige(st, Not(v.isnone), "len_of_none", n)
            return v.val.length
        if isinstance(v, SymList):
            return v.length
        if isinstance(v, EmptyList):
            return 0
        if isinstance(v, tuple):
            return len(v)
        if isinstance(v, SymSet):
            return v.card
        if isinstance(v, ActionV):
            c = self.reg.method_contract(v.kind, "__len__")
            return self.call_contract(c, [v], {}, st, n)
        if isinstance(v, Obj):
            c = self.reg.method_contract(v.cls, "__len__")
            if c is not None and st.spec_mode and self.reg.classes[v.cls].index_field:
                lst = st.heap[v.oid][self.reg.classes[v.cls].index_field]
                return 0 if isinstance(lst, EmptyList) else lst.length
            if c is not None:
                return self.call_contract(c, [v], {}, st, n)
        raise Unsupported("len of %s" % type(v).__name__)

    def builtin_min(self, args, kw, st, n):
        if len(args) == 1:
            lst = args[0]
            if not isinstance(lst, SymList) or lst.tup:
                raise Unsupported("min of %s" % type(lst).__name__)
            # ValueError on an empty sequence; otherwise the minimum is characterised, not computed:
            # it is <= every element and equal to one of them
            self.oblige(st, self.cmp(ast.GtE(), lst.length, 1), "min_of_nonempty_sequence", n)
            v, cs = self.fresh(lst.etypes[0], "min")
            i = z3.Int("i!%d" % next(self.fresh_id))
            k = z3.Int("argmin!%d" % next(self.fresh_id))      # explicit witness (ghost)
            ln = Z(lst.length)
            if lst.parts:
                # a + b + ...: the same two facts, stated operand by operand with operand-local indices
                # (keeps the index arithmetic of the concatenation out of the quantifier bodies)
                off = z3.IntVal(0)
                wit = []
                real = lst.etypes[0] == "real"
                for p in lst.parts:
                    pl = Z(p.length)
                    if isinstance(p.length, int) and p.length <= 8:
                        for c in range(p.length):       # a literal operand: one fact per element
                            e = simp(z3.Select(p.arrs[0], c))
                            st.assume(Z(v) <= (ZR(e) if real else e))
                    else:
                        e = z3.Select(p.arrs[0], i)
                        st.assume(z3.ForAll([i], z3.Implies(z3.And(0 <= i, i < pl), Z(v) <= (ZR(e) if real else e))))
                    ek = z3.Select(p.arrs[0], k - off)
                    wit.append(z3.And(off <= k, k < off + pl, Z(v) == (ZR(ek) if real else ek)))
                    off = simp(off + pl)
                st.assume(z3.And(0 <= k, k < ln, z3.Or(*wit)))
            else:
                st.assume(z3.ForAll([i], z3.Implies(z3.And(0 <= i, i < ln), Z(v) <= z3.Select(lst.arrs[0], i))))
                st.assume(z3.And(0 <= k, k < ln, Z(v) == z3.Select(lst.arrs[0], k)))
            self.last_min_witness = k
            return v
        r = args[0]
        for a in args[1:]:
            r = Ite(self.cmp(ast.Lt(), a, r), a, r)
        return r

    def builtin_max(self, args, kw, st, n):
        if len(args) == 1:
            raise Unsupported("max of an iterable")
        r = args[0]
        for a in args[1:]:
            r = Ite(self.cmp(ast.Gt(), a, r), a, r)
        return r

    def builtin_int(self, args, kw, st, n):
        v = args[0]
        if is_boolish(v):
            return Ite(v, 1, 0)
        if is_intish(v):
            return v
        if isinstance(v, Fraction):
            return int(v)
        if is_realish(v):
            # truncation toward zero
            z = ZR(v)
            return simp(z3.If(z >= 0, z3.ToInt(z), -z3.ToInt(-z)))
        raise Unsupported("int() of %s" % type(v).__name__)

    def builtin_bool(self, args, kw, st, n):
        return self.truth(args[0], st, n)

    def builtin_float(self, args, kw, st, n):
        v = args[0]
        if isinstance(v, EnumV) and v.sort == "str" and v.code == self.reg.intern("inf"):
            return INF
        if is_numish(v):
            return ZR(v) if is_z3(v) else Fraction(v)
        raise Unsupported("float()")

    def builtin_range(self, args, kw, st, n):
        if len(args) == 1:
            return RangeV(0, args[0])
        if len(args) == 2:
            return RangeV(args[0], args[1])
        return RangeV(args[0], args[1], args[2])

    def builtin_tuple(self, args, kw, st, n):
        v = args[0]
        if isinstance(v, SymList):
            return SymList(v.arrs, v.length, v.etypes, v.tup, immutable=True)
        if isinstance(v, tuple):
            return v
        if isinstance(v, EmptyList):
            return ()
        raise Unsupported("tuple()")

    def builtin_entry_is_inf(self, args, kw, st, n):
        """spec: entry_is_inf(table, l, m) - the entry still holds float('inf')"""
        g, l, m = args
        if not isinstance(g, Grid2):
            raise Unsupported("entry_is_inf of a non-table")
        return simp(z3.Select(z3.Select(g.inf, Z(l)), Z(m)))

    def builtin_rows(self, args, kw, st, n):
        return args[0].d0

    def builtin_cols(self, args, kw, st, n):
        return args[0].d1

    def builtin_op_cost(self, args, kw, st, n):
        """spec: cost of one operation (Operation.cost of the sequence algebra, with free RAM transfers)
        in terms of uf, ub, wd, rd: op_cost(op, uf, ub, wd, rd)"""
        op, uf, ub, wd, rd = args
        if isinstance(op, RowRef):
            ty = self.row_field(op.lst, op.row, "type")
            ix = self.row_field(op.lst, op.row, "index")
        elif isinstance(op, Obj):
            ty, ix = st.heap[op.oid]["type"], st.heap[op.oid]["index"]
        else:
            raise Unsupported("op_cost of %s" % type(op).__name__)
        def is_(name):
            return self.equal(ty, EnumV("str", self.reg.intern(name)))
        level1 = self.equal(ix.i0, 1)
        steps = self.arith(ast.Mult(), self.arith(ast.Sub(), ix.i1, ix.i0, st, n), uf, st, n)
        return Ite(is_("Forward"), steps,
                   Ite(is_("Backward"), ub,
                       Ite(Or(is_("Read_disk"), And(is_("Read"), level1)), rd,
                           Ite(Or(is_("Write_disk"), And(Or(is_("Write"), is_("Write_Forward")), level1)), wd,
                               ZR(0)))))

    def builtin_is_pair(self, args, kw, st, n):
        """spec: the operation index is a two-element list"""
        if isinstance(args[0], IndexV):
            return args[0].ip
        return isinstance(args[0], (tuple, ListLit)) and len(args[0]) == 2

    def builtin_scalar(self, args, kw, st, n):
        """spec: the operation index as a single step"""
        if isinstance(args[0], IndexV):
            return args[0].i0
        return args[0]

    def builtin_set(self, args, kw, st, n):
        if args:
            raise Unsupported("set(iterable)")
        return SymSet(z3.K(z3.IntSort(), z3.BoolVal(False)), 0)

    def builtin_isinstance(self, args, kw, st, n):
        v, cls = args
        if isinstance(cls, ActionV) or not isinstance(cls, (ClassRef, TypeV, tuple)):
            # second argument is not a class: TypeError
            self.oblige(st, False, "isinstance_arg2_is_a_class", n)
            return False
        names = [c.name for c in (cls if isinstance(cls, tuple) else (cls,))]
        if isinstance(v, ActionV):
            return v.kind in names or "CheckpointAction" in names
        if isinstance(v, EnumV):
            return "StorageType" in names and v.sort == "StorageType"
        if is_intish(v) or is_boolish(v):
            return "int" in names
        return False

    def builtin_hasattr(self, args, kw, st, n):
        o, name = args
        if not isinstance(o, Obj) or not isinstance(name, EnumV):
            raise Unsupported("hasattr")
        attr = self.reg.string_of(name.code)
        fields = st.heap[o.oid]
        if attr in fields:
            return fields.get("?" + attr, True)
        return False

    def builtin_type(self, args, kw, st, n):
        v = args[0]
        if isinstance(v, ActionV):
            return ClassRef(v.kind)
        if isinstance(v, Obj):
            if "__type__" in st.heap.get(v.oid, {}):
                return TypeV(st.heap[v.oid]["__type__"])
            return ClassRef(v.cls)
        if isinstance(v, EnumV):
            return ClassRef("StorageType" if v.sort == "StorageType" else "str")
        if isinstance(v, tuple) and len(v) == 2 and v[0] == "other":
            return ClassRef("other")
        if is_boolish(v):
            return ClassRef("bool")
        if is_intish(v):
            return ClassRef("int")
        if v is None:
            return ClassRef("NoneType")
        raise Unsupported("type()")

    def builtin_print(self, args, kw, st, n):
        return None

    def builtin_next(self, args, kw, st, n):
        raise Unsupported("next()")

    def list_method(self, target_node, lst, meth, args, st, node):
        """Mutating / querying methods on lists and sets; the container variable is
        updated in place (values are immutable, the binding is rewritten)."""
        def rebinding(newval):
            self.store_target(target_node, newval, st, node)
        if isinstance(lst, ListLit):
            lst = self.to_symlist(lst, st, node)
        if isinstance(lst, (SymList, EmptyList)):
            if meth == "append":
                rebinding(self.list_append(lst, args[0], st, node))
                return None
            if meth == "pop":
                if args:
                    raise Unsupported("pop(i)")
                if isinstance(lst, EmptyList):
                    self.oblige(st, False, "pop_from_empty_list", node)
                    return 0
                if lst.immutable:
                    self.oblige(st, False, "pop_on_tuple", node)
                self.oblige(st, self.cmp(ast.Gt(), lst.length, 0), "pop_from_empty_list", node)
                nl = self.arith(ast.Sub(), lst.length, 1, st, node)
                val = self.list_get(lst, nl)
                rebinding(SymList(lst.arrs, nl, lst.etypes, lst.tup))
                return val
            if meth == "__len__":
                return lst.length if isinstance(lst, SymList) else 0
            if meth == "count":
                v = args[0]
                fn = self.reg.count_function(self, lst, v)
                return fn
            raise Unsupported("list method " + meth)
        if isinstance(lst, SymSet):
            zx = self.set_key(args[0], st, node)
            member = simp(z3.Select(lst.arr, zx))
            if meth == "add":
                rebinding(SymSet(simp(z3.Store(lst.arr, zx, True)),
                                 Ite(member, lst.card, self.arith(ast.Add(), lst.card, 1, st, node))))
                return None
            if meth == "discard":
                rebinding(SymSet(simp(z3.Store(lst.arr, zx, False)),
                                 Ite(member, self.arith(ast.Sub(), lst.card, 1, st, node), lst.card)))
                return None
            if meth == "remove":
                self.oblige(st, member, "remove_key_present", node)
                rebinding(SymSet(simp(z3.Store(lst.arr, zx, False)),
                                 self.arith(ast.Sub(), lst.card, 1, st, node)))
                return None
            raise Unsupported("set method " + meth)
        raise Unsupported("method %s" % meth)

    def store_target(self, t, val, st, node):
        if isinstance(t, ast.Name):
            st.assign(t.id, val, nonlocal_ok=True)
            return
        if isinstance(t, ast.Attribute):
            base = self.ev(t.value, st)
            if isinstance(base, Obj):
                self.setattr_(base, t.attr, val, st, node)
                return
        raise Unsupported("store to %s" % ast.dump(t)[:60])

    def setattr_(self, obj, attr, val, st, node):
        fields = st.heap[obj.oid]
        if obj.oid == "self" and self.contract.frame is not None and not st.spec_mode:
            if attr not in self.contract.frame and not attr.startswith("?"):
                self.oblige(st, False, "frame_assigns_only_%s" % "_".join(self.contract.frame or ["nothing"]),
                            node, kind="frame")
        fields[attr] = val
        if "?" + attr in fields:
            fields["?" + attr] = True

    # ------------------------------------------------------------------ contracts at call sites
    def bind_args(self, c, args, kw, st, node):
        names = list(c.params)
        bound = {}
        if len(args) > len(names):
            raise Unsupported("too many positional arguments for %s" % c.name)
        for nm, a in zip(names, args):
            bound[nm] = a
        for k, v in kw.items():
            if k == "**":
                # f(..., **d): d becomes the callee's **kwargs dictionary (declared in the sidecar)
                if not c.kwargs_param or not isinstance(v, DictV):
                    raise Unsupported("** argument for %s" % c.name)
                bound[c.kwargs_param] = v
                continue
            if k not in c.params:
                raise Unsupported("unknown keyword %s for %s" % (k, c.name))
            bound[k] = v
        for nm in names:
            if nm not in bound:
                if nm in c.defaults:
                    bound[nm] = c.default_value(nm, self)
                else:
                    raise Unsupported("missing argument %s for %s" % (nm, c.name))
        return bound

    def call_contract(self, c, args, kw, st, node):
        """Modular call: check pre, fork on declared exceptions, havoc frame, assume post."""
        if st.spec_mode and not c.pure:
            raise Unsupported("impure call %s inside a specification" % c.name)
        bound = self.bind_args(c, args, kw, st, node)
        if self.concrete:
            return self.concrete_call(c, bound, st, node)
        site = (st.frames[-1].func or self.fi).site(node, "call")
        cst = self.contract_state(c, bound, st)
        if self.contract.recursion_measure and not st.spec_mode and \
                c.name.split("#")[0] == self.contract.name.split("#")[0]:
            mnode = self.reg.parse_expr(self.contract.recursion_measure)
            callee_m = self.ev(mnode, cst)
            own = State()
            own.frames = [Frame(dict(st.old_vars or {}), None, None)]
            own.heap = st.old_heap or {}
            own.spec_mode = 1
            own_m = self.ev(mnode, own)
            self.oblige(st, And(self.cmp(ast.GtE(), callee_m, 0), self.cmp(ast.Lt(), callee_m, own_m)),
                        "recursion_decreases:%s" % self.contract.recursion_measure, node, kind="termination",
                        clause="recursive call on a strictly smaller %s" % self.contract.recursion_measure)
        # preconditions
        for label, expr in c.requires:
            cond = self.ev_spec(expr, cst, c)
            self.oblige(st, cond, "pre:%s:%s" % (c.short, label), node, kind="call_pre",
                        clause="%s requires %s" % (c.name, expr))
        # declared exceptions: the caller must exclude them, unless the caller itself
        # declares the exception (then the path is handed to the caller's raise handling)
        pending = getattr(st, "pending_raises", None)
        for exc, expr in c.raises:
            cond = self.ev_spec(expr, cst, c)
            if cond is False:
                continue
            if pending is not None and not st.spec_mode:
                # the exception propagates from here: fork the raising path *before* the
                # callee's normal-path effects and postconditions are applied
                g = st.guard()
                full = cond if g is None else And(g, cond)
                r = st.fork()
                r.guards = []
                r.pending_raises = None
                r.assume(full)
                if self.feasible(r):
                    pending.append((r, exc, node))
                st.assume(Not(cond))
            else:
                self.oblige(st, Not(cond), "noraise:%s:%s" % (c.short, exc), node, kind="call_noraise",
                            clause="%s raises %s when %s" % (c.name, exc, expr))
        # result
        old_heap = {k: dict(v) for k, v in st.heap.items()}
        res = None
        if c.pure and c.uf is not None:
            if isinstance(c.uf, list):
                res = tuple(self.apply_uf(f, [bound[p] for p in c.uf_params]) for f in c.uf)
                for comp, t in zip(res, c.returns[1]):
                    if t == "steptype":
                        st.assume(And(self.cmp(ast.GtE(), comp, 0), self.cmp(ast.LtE(), comp, 6)))
            else:
                res = self.apply_uf(c.uf, [bound[p] for p in c.uf_params])
                res = c.wrap_result(res)
        elif c.result_expr is not None:
            res = self.ev(self.reg.parse_expr(c.result_expr), cst)
        elif isinstance(c.returns, tuple) and c.returns[0] == "obj":
            cls = c.returns[1]
            oid = "%s!%d" % (cls, next(self.fresh_id))
            st.heap[oid] = {}
            for fld, fty in self.reg.fields_of(cls).items():
                v, cs = self.fresh(fty[1:] if isinstance(fty, str) and fty.startswith("?") else fty,
                                   "%s.%s" % (oid, fld))
                st.heap[oid][fld] = v
                for x in cs:
                    st.assume(x)
            res = Obj(oid, cls)
        elif c.returns is not None:
            res, cs = self.fresh(c.returns, "ret_" + c.short)
            for x in cs:
                st.assume(x)
        # frame havoc
        selfv = bound.get("self")
        if c.sets and isinstance(selfv, Obj):
            for fld, expr in c.sets.items():
                st.heap[selfv.oid][fld] = self.ev(self.reg.parse_expr(expr), cst)
        if c.frame and isinstance(selfv, Obj) and not c.sets:
            decl = self.reg.fields_of(selfv.cls)
            for fld in c.frame:
                cur = st.heap[selfv.oid].get(fld)
                if fld not in st.heap[selfv.oid] and fld in decl:
                    ty = decl[fld]
                    nv, cs = self.fresh(ty[1:] if isinstance(ty, str) and ty.startswith("?") else ty,
                                        "%s.%s" % (c.short, fld))
                else:
                    nv, cs = self.fresh_like(cur, "%s.%s" % (c.short, fld))
                st.heap[selfv.oid][fld] = nv
                for x in cs:
                    st.assume(x)
        post = self.contract_state(c, bound, st)
        post.old_heap = old_heap
        post.old_vars = dict(bound)
        post.frames[-1].vars["result"] = res
        for label, expr, _props in c.ensures:
            if label.startswith("local:"):
                continue       # mentions the callee's locals: proved on its body, not visible to callers
            cond = self.ev_spec(expr, post, c)
            st.assume(cond)
        return res

    def contract_state(self, c, bound, st):
        cst = State()
        cst.heap = st.heap          # shared (read-only use)
        cst.pc = st.pc
        cst.guards = st.guards
        cst.frames = [Frame(dict(bound), None, None)]
        cst.spec_mode = 1
        return cst

    def ev_spec(self, expr, st, c=None):
        node = self.reg.parse_expr(expr)
        saved = st.spec_mode
        st.spec_mode = saved + 1
        try:
            v = self.ev(node, st)
            return self.truth(v, st, node)
        finally:
            st.spec_mode = saved
