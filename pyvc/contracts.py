"""Contract registry and sidecar DSL (DESIGN.md 4).

A contract is pure data: Python-expression strings over the parameters,
`self.<field>`, `result`, `old(...)`, ghost fields `g.<field>`, the quantifier
helpers forall/exists(lo, hi, lambda i: ...), implies(a, b) and declared spec
functions (uninterpreted in SMT)."""
import ast
from collections import OrderedDict

import z3

from .values import EnumV, Unsupported, EngineError


def loop_shape(text):
    """Structural fingerprint of a loop head: tolerant to edits of bounds / comparison operators
    (those must show up as failed obligations, not as anchoring errors), strict about which loop
    it is: `for <target> in <callee>` resp. the set of names a `while` test reads."""
    text = text.strip()
    try:
        if text.startswith("for "):
            node = ast.parse(text + ":\n    pass").body[0]
            it = node.iter
            callee = it.func.id if isinstance(it, ast.Call) and isinstance(it.func, ast.Name) else type(it).__name__
            return "for %s in %s" % (ast.unparse(node.target), callee)
        node = ast.parse(text, mode="eval").body
        names = set()
        for e in ast.walk(node):
            if isinstance(e, ast.Attribute):
                names.add(ast.unparse(e))
            elif isinstance(e, ast.Name):
                names.add(e.id)
        # drop names that are only prefixes of collected attributes
        names = {n for n in names if not any(m.startswith(n + ".") for m in names)}
        return "while " + ",".join(sorted(names))
    except SyntaxError:
        return text


class LoopSpec:
    def __init__(self, test, inv, decreases=None, extra_modifies=(), index_name=None, unroll=False):
        self.test = test                    # fingerprint: ast.unparse of the loop test / iter
        self.inv = list(inv)                # [(label, expr)]
        self.decreases = decreases
        self.extra_modifies = tuple(extra_modifies)
        # a `for` over a range whose bounds are concrete on every path (e.g. range(len(cvect)) with a
        # 2-tuple): executed iteration by iteration instead of through an invariant; a bound that is
        # not concrete is an engine error, never a silent truncation
        self.unroll = unroll


class Contract:
    def __init__(self, name, *, params=(), self_class=None, requires=(), ensures=(), raises=(),
                 raises_unchanged=True, frame=None, pure=False, returns=None, loops=(), total=True,
                 props=(), hooks=None, locals=None, defaults=None, is_property=False,
                 uf_params=None, assumed=False, note="", ghost=None, exc_props=None,
                 stop_ensures=(), bounded=(), globals=None, hints=None, yields_range=None,
                 recursion_measure=None, result_expr=None, sets=None, closure=None,
                 implicit_guards=(), kwargs_param=None, callees=None, definitions=()):
        self.name = name
        self.short = name.split(".")[-1]
        self.params = OrderedDict(params)     # name -> type descriptor
        self.self_class = self_class
        self.requires = [(l, e) for l, e in requires]
        self.ensures = [(x[0], x[1], (x[2] if len(x) > 2 else None)) for x in ensures]
        self.raises = list(raises)            # [(ExcName, cond expr)] : raised iff cond (pre-state)
        self.raises_unchanged = raises_unchanged
        self.frame = None if frame is None else list(frame)
        self.pure = pure
        self.returns = returns
        self.loops = list(loops)
        self.total = total
        self.props = tuple(props)
        self.hooks = hooks
        self.locals = dict(locals or {})
        self.defaults = dict(defaults or {})  # name -> python-expression string
        self.is_property = is_property
        self.uf = None
        self.uf_params = uf_params
        self.assumed = assumed                # contract used by callers but not verified (listed)
        self.note = note
        self.exc_props = exc_props or {}
        self.stop_ensures = list(stop_ensures)
        self.bounded = list(bounded)
        self.globals = dict(globals or {})   # module-level names the function reads -> expression
        # cut lemmas: after an assignment to <name>, prove (then use) these facts: splits one hard
        # obligation into small ones; they are obligations, never assumptions
        self.hints = dict(hints or {})
        # generator that is exactly `yield from range(lo, hi, step)`: (lo expr, hi expr, step int)
        self.yields_range = yields_range
        # well-founded recursion: a recursive call (through its wrapper contract) must strictly
        # decrease this non-negative measure of the arguments
        self.recursion_measure = recursion_measure
        # the result is exactly this expression of the arguments / pre-state (also listed among
        # the ensures and proved on the body): callers get the term itself instead of a fresh symbol
        self.result_expr = result_expr
        # constructor-style effect: field := expression over the arguments (exact, no havoc)
        self.sets = dict(sets or {})
        self.closure = dict(closure or {})     # closure cell -> type (mutable state of a nested def)
        # total=False only: implicit exceptions (by obligation label) that end the path like a guard
        self.implicit_guards = tuple(implicit_guards)
        self.kwargs_param = kwargs_param      # name of the function's **kwargs parameter (a typed dict)
        # callee name -> contract name, where the callee has several contract variants (f#variant)
        self.callees = dict(callees or {})
        # definitional facts about spec functions that are relative to this call (e.g. the running sum
        # of operation costs over self._schedule): assumed at entry, listed as definitions
        self.definitions = list(definitions)

    def default_value(self, nm, engine):
        from .engine import State
        st = State()
        st.spec_mode = 1
        return engine.ev(ast.parse(self.defaults[nm], mode="eval").body, st)

    def wrap_result(self, res):
        if self.returns == "storage":
            return EnumV("StorageType", res)
        return res

    def loop_spec(self, ordinal, fingerprint):
        from .source import AnchorError
        if ordinal >= len(self.loops):
            raise AnchorError("%s: no loop contract for loop[%d] (%s)" % (self.name, ordinal, fingerprint))
        spec = self.loops[ordinal]
        if spec.test is not None and loop_shape(spec.test) != loop_shape(fingerprint):
            raise AnchorError("%s: loop[%d] is `%s`, the sidecar expects `%s`" % (
                self.name, ordinal, fingerprint, spec.test))
        return spec


class ClassSpec:
    def __init__(self, name, module, bases=(), fields=(), invariant=(), ghost_fields=(), index_field=None,
                 ignored_fields=()):
        self.name = name
        self.module = module
        self.bases = tuple(bases)
        self.fields = OrderedDict(fields)      # field -> type descriptor
        self.invariant = list(invariant)       # [(label, expr)]
        self.ghost_fields = OrderedDict(ghost_fields)
        self.index_field = index_field        # the list field obj[i] / len(obj) read (specifications)
        self.ignored_fields = set(ignored_fields)   # bookkeeping fields that are not modelled


class Registry:
    def __init__(self):
        self.contracts = {}
        self.classes = {}
        self.spec_functions = {}
        self.spec_constants = {}
        self.schema_only = {}
        self.axioms = []          # [(label, expr-string)] assumed in every VC that mentions them
        self.lemmas = []
        self._strings = {}
        self._rev = {}
        self._parsed = {}
        self.assumption_notes = []
        self._ghost = {}
        self._ghost_trees = {}
        self.aliases = {}
        self.arith_lemmas = {}
        self.class_aliases = {}
        self.axiom_instances = {}
        self.spec_axiom_text = {}
        self.z3_definitions = {}     # spec function -> [(label, formula)]: definitional axioms
        self.z3_lemmas = {}          # spec function -> [(label, formula)]: proved by induction

    # strings are interned as small ints (enumeration encoding, no string theory)
    def intern(self, s):
        if s not in self._strings:
            self._strings[s] = len(self._strings) + 1
            self._rev[self._strings[s]] = s
        return self._strings[s]

    def string_of(self, code):
        if isinstance(code, int):
            return self._rev.get(code, "<str#%d>" % code)
        raise Unsupported("symbolic attribute name")

    def parse_expr(self, expr):
        if expr not in self._parsed:
            self._parsed[expr] = ast.parse(expr.strip(), mode="eval").body
        return self._parsed[expr]

    def add(self, c):
        self.contracts[c.name] = c
        if c.pure and c.returns is not None and c.uf_params is not None:
            sorts = []
            for p in c.uf_params:
                sorts.append(self.sort_of(c.params[p]))
            base = "F_" + c.name.replace(".", "_").replace("<", "").replace(">", "").replace("#", "_")
            if isinstance(c.returns, tuple) and c.returns[0] == "tuple":
                c.uf = [z3.Function("%s_%d" % (base, i), *(sorts + [self.sort_of(t)]))
                        for i, t in enumerate(c.returns[1])]
            else:
                c.uf = z3.Function(base, *(sorts + [self.sort_of(c.returns)]))
        return c

    def spec_constant(self, name, ty="real"):
        """A symbolic constant of the specification (e.g. an arbitrary cost): universally quantified
        over by every obligation that mentions it."""
        c = z3.Const(name, self.sort_of(ty))
        self.spec_constants[name] = c
        return c

    def spec_axioms(self, fname, axioms):
        """Definitional axioms of a spec function, written in the contract language (closed
        formulas: forall/exists over integers).  They are added to exactly the VCs that mention
        the function, and listed in the evidence as the *definition* of the spec function."""
        self.spec_axiom_text.setdefault(fname, []).extend(axioms)

    def axiom_schema(self, fname, label, int_params, real_params, body, closed=True):
        """A definitional axiom of spec function `fname`, given as an open formula: it is closed
        universally where the function is mentioned, and can be instantiated by hand at a hint
        site with ("use", label, [args]) when the solver's triggers do not find the instance."""
        closed_text = "forall_int(lambda %s: forall_real(lambda %s: %s))" % (
            ", ".join(int_params), ", ".join(real_params), body) if real_params else \
            "forall_int(lambda %s: %s)" % (", ".join(int_params), body)
        # closed=False: instances only (a recurrence whose universal closure would feed the
        # solver's instantiation loop); the closed text is kept for the evidence and the model check
        if closed is not False:
            self.spec_axiom_text.setdefault(fname, []).append((label, closed_text))
        else:
            self.schema_only.setdefault(fname, []).append((label, closed_text))
        self.axiom_instances[label] = (list(int_params) + list(real_params), body)

    def arith_lemma(self, name, params, hyps, concl, props=()):
        """A universally quantified arithmetic fact, proved on its own (small, stable query) by
        pyvc.lemmas on every run and instantiated at hint sites with `("use", name, [args])`."""
        self.arith_lemmas[name] = (list(params), hyps, concl, tuple(props))

    def alias(self, simple, contract_name):
        self.aliases[simple] = contract_name

    def sort_of(self, ty):
        if ty in ("int", "nat", "storage", "steptype", "str"):
            return z3.IntSort()
        if ty == "bool":
            return z3.BoolSort()
        if ty == "real":
            return z3.RealSort()
        raise EngineError("no sort for %r" % (ty,))

    def add_class(self, cs):
        self.classes[cs.name] = cs
        return cs

    def spec_function(self, name, argtypes, rettype):
        f = z3.Function(name, *([self.sort_of(t) for t in argtypes] + [self.sort_of(rettype)]))
        self.spec_functions[name] = f
        return f

    # lookups ---------------------------------------------------------------
    def mro(self, cls):
        out = []
        todo = [cls]
        while todo:
            c = todo.pop(0)
            if c in out or c not in self.classes:
                if c not in out and c is not None:
                    out.append(c)
                continue
            out.append(c)
            todo.extend(self.classes[c].bases)
        return out

    def _find_method(self, cls, meth, exact=False):
        for c in ([cls] if exact else self.mro(cls)):
            spec = self.classes.get(c)
            mod = spec.module if spec else None
            for key in ((mod + "." + c + "." + meth) if mod else None, c + "." + meth):
                if key and key in self.contracts:
                    return self.contracts[key]
        return None

    def method_contract(self, cls, meth, exact=False):
        c = self._find_method(cls, meth, exact)
        if c is not None and c.is_property:
            return None
        return c

    def property_contract(self, cls, attr):
        c = self._find_method(cls, attr)
        if c is not None and c.is_property:
            return c
        return None

    def superclass(self, cls, fi):
        owner = fi.cls if fi is not None and fi.cls else cls
        spec = self.classes.get(owner)
        if spec is None or not spec.bases:
            raise Unsupported("super() of %s" % owner)
        return spec.bases[0]

    def function_contract(self, simple, fi):
        if simple in self.aliases:
            return self.contracts[self.aliases[simple]]
        cands = [c for n, c in self.contracts.items()
                 if n.split(".")[-1] == simple and c.self_class is None]
        if not cands:
            return None
        if len(cands) == 1:
            return cands[0]
        same = [c for c in cands if c.name.rsplit(".", 1)[0] == fi.module]
        if len(same) == 1:
            return same[0]
        raise Unsupported("ambiguous callee %s" % simple)

    def fields_of(self, cls):
        out = OrderedDict()
        for c in reversed(self.mro(cls)):
            spec = self.classes.get(c)
            if spec:
                out.update(spec.fields)
        return out

    def invariant_of(self, cls):
        out = []
        for c in reversed(self.mro(cls)):
            spec = self.classes.get(c)
            if spec:
                out.extend(spec.invariant)
        return out

    def ghost_function(self, module, fname):
        """A ghost function: Python source in /verif/contracts/<module>.py, inlined by the
        engine at yields and run natively by the bounded layer."""
        import os
        from .source import FuncInfo
        key = (module, fname)
        if key not in self._ghost:
            path = os.path.join(os.path.dirname(os.path.dirname(os.path.abspath(__file__))),
                                "contracts", module + ".py")
            if module not in self._ghost_trees:
                with open(path) as f:
                    self._ghost_trees[module] = ast.parse(f.read(), filename=path)
            for node in self._ghost_trees[module].body:
                if isinstance(node, ast.FunctionDef) and node.name == fname:
                    self._ghost[key] = FuncInfo("ghost." + module, fname, node, path)
                    break
            else:
                raise EngineError("ghost function %s.%s not found" % (module, fname))
        return self._ghost[key]

    def declare_count(self):
        """CNT(a, k, v) = |{i : 0 <= i < k, a[i] == v}|, by its recursive definition; the
        monotonicity / bounds lemmas are proved by induction in pyvc.lemmas (every run) and
        are then available to the solver as quantified facts."""
        if "CNT" in self.spec_functions:
            return
        A = z3.ArraySort(z3.IntSort(), z3.IntSort())
        CNT = z3.Function("CNT", A, z3.IntSort(), z3.IntSort(), z3.IntSort())
        self.spec_functions["CNT"] = CNT
        a = z3.Const("a", A)
        b = z3.Const("b", A)
        j, k, v, i = z3.Ints("j k v i")
        defs = [
            ("CNT.def.zero", z3.ForAll([a, v], CNT(a, 0, v) == 0)),
            ("CNT.def.step", z3.ForAll([a, k, v], z3.Implies(
                k >= 0, CNT(a, k + 1, v) == CNT(a, k, v) + z3.If(z3.Select(a, k) == v, 1, 0)))),
        ]
        lemmas = [
            ("CNT.lemma.monotone", z3.ForAll([a, j, k, v], z3.Implies(
                z3.And(0 <= j, j <= k), CNT(a, j, v) <= CNT(a, k, v)))),
            ("CNT.lemma.bounds", z3.ForAll([a, k, v], z3.Implies(
                k >= 0, z3.And(0 <= CNT(a, k, v), CNT(a, k, v) <= k)))),
            ("CNT.lemma.none", z3.ForAll([a, k, v], z3.Implies(
                z3.And(k >= 0, z3.ForAll([i], z3.Implies(z3.And(0 <= i, i < k), z3.Select(a, i) != v))),
                CNT(a, k, v) == 0))),
            ("CNT.lemma.all", z3.ForAll([a, k, v], z3.Implies(
                z3.And(k >= 0, z3.ForAll([i], z3.Implies(z3.And(0 <= i, i < k), z3.Select(a, i) == v))),
                CNT(a, k, v) == k))),
        ]
        v2 = z3.Int("v2")
        lemmas += [
            ("CNT.lemma.positive", z3.ForAll([a, k, v, i], z3.Implies(
                z3.And(0 <= i, i < k, z3.Select(a, i) == v), CNT(a, k, v) >= 1))),
            ("CNT.lemma.partition", z3.ForAll([a, k, v, v2], z3.Implies(
                z3.And(k >= 0, v != v2, z3.ForAll([i], z3.Implies(
                    z3.And(0 <= i, i < k), z3.Or(z3.Select(a, i) == v, z3.Select(a, i) == v2)))),
                CNT(a, k, v) + CNT(a, k, v2) == k))),
        ]
        self.z3_definitions["CNT"] = defs
        self.z3_lemmas["CNT"] = lemmas

    def count_function(self, engine, lst, v):
        self.declare_count()
        return engine.apply_uf(self.spec_functions["CNT"], [lst, lst.length, v])
