"""Inductive proofs of the spec-function lemmas (DESIGN.md: 'the solver will not do
induction unprompted').  Each lemma L(k) is proved by two SMT queries over the
*definitional* axioms only: base L(0) and step L(k) => L(k+1) for an arbitrary k >= 0.
The induction principle over the naturals is the only thing trusted here."""
import z3

from .engine import Obligation


def _ob(name, pc, goal, props=("C03", "C14")):
    ob = Obligation(name, props, pc, goal, "pyvc/lemmas.py", "lemma", "lemma", name, 0)
    ob.trivial = False
    return ob


def arith_obligations(reg):
    """Each registered arithmetic lemma, proved for all integers in isolation."""
    from .engine import Engine, State, Frame
    from .verifier import Verifier
    out = []
    for name, (params, hyps, concl, props) in reg.arith_lemmas.items():
        eng = Verifier.__new__(Verifier)
        Engine.__init__(eng, None, reg, None, _Dummy(), concrete=False)
        st = State()
        vals = {p: z3.Int("L_%s_%s" % (name, p)) for p in params}
        st.frames = [Frame(dict(vals), None, None)]
        st.spec_mode = 1
        hs = []
        for hyp in (hyps if isinstance(hyps, (list, tuple)) else [hyps]):
            h = eng.ev_spec(hyp, st)
            st.assume(h)      # in order: divisors known positive get z3's native div/mod encoding
            hs.append(z3.BoolVal(True) if h is True else h)
        c = eng.ev_spec(concl, st)
        out.append(_ob("lemma.arith.%s" % name, hs,
                       z3.BoolVal(c) if isinstance(c, bool) else c, props=props or ("C01",)))
    return out


class _Dummy:
    globals = {}
    props = ()
    hooks = None
    frame = None
    locals = {}


def obligations(reg):
    if "CNT" not in reg.spec_functions:
        return []
    CNT = reg.spec_functions["CNT"]
    defs = [f for _, f in reg.z3_definitions["CNT"]]
    A = z3.ArraySort(z3.IntSort(), z3.IntSort())
    a = z3.Const("a0", A)
    j, k, v, i = z3.Ints("j0 k0 v0 i0")
    out = []
    # monotone: for fixed j >= 0, induction on k >= j
    P = lambda kk: CNT(a, j, v) <= CNT(a, kk, v)    # noqa: E731
    out.append(_ob("lemma.CNT.monotone#base", defs + [j >= 0], P(j)))
    out.append(_ob("lemma.CNT.monotone#step", defs + [j >= 0, k >= j, P(k)], P(k + 1)))
    # bounds
    B = lambda kk: z3.And(0 <= CNT(a, kk, v), CNT(a, kk, v) <= kk)    # noqa: E731
    out.append(_ob("lemma.CNT.bounds#base", defs, B(0)))
    out.append(_ob("lemma.CNT.bounds#step", defs + [k >= 0, B(k)], B(k + 1)))
    # none / all: induction on k with the hypothesis restricted to the prefix
    def none_h(kk):
        return z3.ForAll([i], z3.Implies(z3.And(0 <= i, i < kk), z3.Select(a, i) != v))

    def all_h(kk):
        return z3.ForAll([i], z3.Implies(z3.And(0 <= i, i < kk), z3.Select(a, i) == v))
    out.append(_ob("lemma.CNT.none#base", defs, CNT(a, 0, v) == 0))
    out.append(_ob("lemma.CNT.none#step", defs + [k >= 0, z3.Implies(none_h(k), CNT(a, k, v) == 0),
                                                   none_h(k + 1)], CNT(a, k + 1, v) == 0))
    out.append(_ob("lemma.CNT.all#base", defs, CNT(a, 0, v) == 0))
    out.append(_ob("lemma.CNT.all#step", defs + [k >= 0, z3.Implies(all_h(k), CNT(a, k, v) == k),
                                                  all_h(k + 1)], CNT(a, k + 1, v) == k + 1))
    # positive: for a fixed witness i0 with a[i0] == v, induction on k > i0
    w = z3.Int("w0")
    # (uses the bounds lemma, proved above, at k = w)
    out.append(_ob("lemma.CNT.positive#base", defs + [0 <= w, z3.Select(a, w) == v, B(w)],
                   CNT(a, w + 1, v) >= 1))
    out.append(_ob("lemma.CNT.positive#step", defs + [0 <= w, k > w, CNT(a, k, v) >= 1],
                   CNT(a, k + 1, v) >= 1))
    # partition
    v2 = z3.Int("v20")

    def part_h(kk):
        return z3.ForAll([i], z3.Implies(z3.And(0 <= i, i < kk),
                                         z3.Or(z3.Select(a, i) == v, z3.Select(a, i) == v2)))
    out.append(_ob("lemma.CNT.partition#base", defs + [v != v2], CNT(a, 0, v) + CNT(a, 0, v2) == 0))
    out.append(_ob("lemma.CNT.partition#step",
                   defs + [v != v2, k >= 0, z3.Implies(part_h(k), CNT(a, k, v) + CNT(a, k, v2) == k),
                           part_h(k + 1)], CNT(a, k + 1, v) + CNT(a, k + 1, v2) == k + 1))
    return out
