"""Drive a real schedule object with the reference executor.

spec = (class_name, args(tuple), kwargs(tuple of pairs), N)
  N is the true number of steps (for offline classes it must equal max_n).
"""
import contextlib
import io
import math
import warnings

import checkpoint_schedules as cs
from checkpoint_schedules.schedule import (
    Forward, Reverse, Copy, Move, EndForward, EndReverse, StorageType)

from .executor import Executor, RAM, DISK, INF, akey

ST = {"RAM": StorageType.RAM, "DISK": StorageType.DISK,
      "WORK": StorageType.WORK, "NONE": StorageType.NONE}

CLASSES = {
    "SingleMemory": cs.SingleMemoryStorageSchedule,
    "SingleDisk": cs.SingleDiskStorageSchedule,
    "NoneSchedule": cs.NoneCheckpointSchedule,
    "Multistage": cs.MultistageCheckpointSchedule,
    "Mixed": cs.MixedCheckpointSchedule,
    "TwoLevel": cs.TwoLevelCheckpointSchedule,
    "Revolve": cs.Revolve,
    "DiskRevolve": cs.DiskRevolve,
    "PeriodicDiskRevolve": cs.PeriodicDiskRevolve,
    "HRevolve": cs.HRevolve,
}
ONLINE = {"SingleMemory", "SingleDisk", "NoneSchedule", "TwoLevel"}
REVOLVE_FAMILY = {"Revolve", "DiskRevolve", "PeriodicDiskRevolve", "HRevolve"}


def _kw(kwargs):
    d = {}
    for k, v in kwargs:
        if isinstance(v, str) and v in ST and k in ("storage", "binomial_storage"):
            v = ST[v]
        d[k] = v
    return d


def build(spec):
    name, args, kwargs, N = spec
    with contextlib.redirect_stdout(io.StringIO()), warnings.catch_warnings():
        warnings.simplefilter("ignore")
        return CLASSES[name](*args, **_kw(kwargs))


def passes_allowed(spec):
    name, args, kwargs, N = spec
    kw = dict(kwargs)
    if name == "NoneSchedule":
        return 0
    if name in ("SingleMemory", "TwoLevel"):
        return INF
    if name == "SingleDisk":
        move = kw.get("move_data", args[0] if args else False)
        return 1 if move else INF
    return 1


def budgets(spec):
    """Declared, un-clamped budgets of the C03 statement."""
    name, args, kwargs, N = spec
    kw = dict(kwargs)
    if name in ("SingleMemory", "NoneSchedule"):
        return {RAM: 0, DISK: 0}
    if name == "SingleDisk":
        return {RAM: 0, DISK: INF}
    if name == "Multistage":
        return {RAM: args[1], DISK: args[2]}
    if name == "Mixed":
        st = kw.get("storage", "DISK")
        return {RAM: args[1] if st == "RAM" else 0,
                DISK: args[1] if st == "DISK" else 0}
    if name == "TwoLevel":
        period, b = args[0], args[1]
        st = kw.get("binomial_storage", "DISK")

        def disk(ex):
            # one disk checkpoint per started period (+ b in the binomial storage)
            started = ex.forwards_emitted if ex.phase == "FWD" else math.ceil(ex.N / period)
            started = min(started, math.ceil(ex.N / period)) if ex.known else started
            return started + (b if st == "DISK" else 0)
        return {RAM: b if st == "RAM" else 0, DISK: disk}
    if name == "Revolve":
        return {RAM: args[1], DISK: 0}
    if name in ("DiskRevolve", "PeriodicDiskRevolve"):
        return {RAM: args[1], DISK: INF}
    if name == "HRevolve":
        return {RAM: args[1], DISK: args[2]}
    raise KeyError(name)


_SHAPE_CODE = None


def _shape_code():
    """The assumed shape contracts of contracts/shapes.py (the strings the VC layer assumes about the
    operation list of a Revolve-family schedule), compiled for native evaluation; implies() is lazy."""
    global _SHAPE_CODE
    if _SHAPE_CODE is None:
        import ast
        from contracts import shapes

        class Lazy(ast.NodeTransformer):
            def visit_Call(self, node):
                self.generic_visit(node)
                if isinstance(node.func, ast.Name) and node.func.id == "implies":
                    return ast.BoolOp(ast.Or(), [ast.UnaryOp(ast.Not(), node.args[0]), node.args[1]])
                return node

        def comp(expr):
            tree = ast.fix_missing_locations(Lazy().visit(ast.parse(expr, mode="eval")))
            return compile(tree, "<shape>", "eval")
        _SHAPE_CODE = ([(l, comp(e)) for l, e in shapes.SHAPE], [(l, comp(e)) for l, e in shapes.LIST_SHAPES])
    return _SHAPE_CODE


def operation_shape(sched):
    """-> list of (label, detail): assumed contracts on sched._schedule that do not hold."""
    ops = getattr(sched, "_schedule", None)
    if ops is None:
        return []
    per_op, per_list = _shape_code()
    env = {"is_pair": lambda x: isinstance(x, (list, tuple)) and len(x) == 2,
           "scalar": lambda x: x, "len": len}
    out = []
    for k, op in enumerate(ops):
        for label, code in per_op:
            try:
                ok = bool(eval(code, dict(env, self=op)))
            except Exception as exc:
                ok = False
                label = "%s (%s)" % (label, type(exc).__name__)
            if not ok:
                out.append((label, "operation[%d] = %s %r" % (k, op.type, op.index)))
                break
        if len(out) >= 3:
            break
    env["forall"] = lambda lo, hi, f: all(f(k) for k in range(lo, hi))
    for label, code in per_list:
        try:
            if not eval(code, dict(env, schedule=ops)):
                out.append((label, "types %s ..." % [o.type for o in ops[:6]]))
        except Exception as exc:
            out.append((label, type(exc).__name__))
    return out


import sys as _sys
_REPR_NS = {"Forward": Forward, "Reverse": Reverse, "Copy": Copy, "Move": Move, "EndForward": EndForward,
            "EndReverse": EndReverse, "StorageType": StorageType, "sys": _sys}


def _next_via_for(sched):
    """One action obtained the way a client loop does: `for action in schedule: ...; break`.  A new
    `for` statement is entered for every action, so the stream must survive leaving a loop and
    iterating again (iter(schedule) is the schedule itself)."""
    for a in sched:
        return a
    raise StopIteration


def drive(spec, passes=1, keep_stream=True, max_actions=2_000_000, observe=True, interfere=None,
          via_for=False):
    """Run the real class, feeding every action to the executor.

    Returns dict(viol=[(prop, clause, detail)], stream=[akey...], pass_streams, stats,
                 error=(exc_type, msg, n_actions_emitted) | None)
    """
    name, args, kwargs, N = spec
    allowed = passes_allowed(spec)
    ex = Executor(N, budgets(spec), single_memory=(name == "SingleMemory"),
                  passes_allowed=allowed, offline=(name not in ONLINE))
    res = {"spec": spec, "viol": ex.viol, "error": None, "stream": [],
           "pass_bounds": [], "flags": []}
    out = io.StringIO()
    try:
        with contextlib.redirect_stdout(out), warnings.catch_warnings():
            warnings.simplefilter("ignore")
            sched = CLASSES[name](*args, **_kw(kwargs))
    except Exception as exc:  # construction failure: reported to the caller
        res["error"] = (type(exc).__name__, str(exc)[:200], 0, "construct")
        res["stats"] = _stats(ex)
        return res
    res["assumption"] = operation_shape(sched)
    # interference: another live schedule (built first, advanced one action after each action of the
    # schedule under test).  Objects must not share state, so this changes nothing on a correct tree.
    other = None
    if interfere is not None:
        try:
            with contextlib.redirect_stdout(io.StringIO()), warnings.catch_warnings():
                warnings.simplefilter("ignore")
                other = CLASSES[interfere[0]](*interfere[1], **_kw(interfere[2]))
                sched = CLASSES[name](*args, **_kw(kwargs))     # built while the other one is alive
                next(other)
        except Exception:
            other = None
    if observe:
        try:
            if sched.is_running is not False:
                ex.index = -1
                ex.v("C09", "is_running_false_before_first_action", "")
            if sched.is_exhausted is not False:
                ex.v("C09", "is_exhausted_false_while_actions_remain", "before first next()")
            if not (sched.n == 0 and sched.r == 0):
                ex.v("C08", "n_r_zero_before_first_action", "n=%s r=%s" % (sched.n, sched.r))
        except Exception as exc:
            ex.v("C09", "observer_raised", "%s: %s" % (type(exc).__name__, exc))
    want = passes if allowed == INF else allowed
    count = 0
    pass_start = None
    try:
        with contextlib.redirect_stdout(out), warnings.catch_warnings():
            warnings.simplefilter("ignore")
            while count < max_actions:
                try:
                    a = _next_via_for(sched) if via_for else next(sched)
                except StopIteration:
                    if not ex.done:
                        ex.index = count
                        ex.v("C02", "stream_ended_early", "StopIteration after %d actions" % count)
                        ex.v("C09", "stream_ended_early", "StopIteration after %d actions" % count)
                    break
                count += 1
                if len(ex.viol) > 60 or count > 50 * (N + 10) * (N + 10):
                    # enough evidence, or a stream that does not make progress (a correct stream has
                    # far fewer than 50 (N+10)^2 actions per pass): stop instead of running to max_actions
                    if len(ex.viol) <= 60:
                        ex.v("C02", "stream_ended_early", "no progress after %d actions" % count)
                        ex.v("C09", "stream_ended_early", "no progress after %d actions" % count)
                    break
                if other is not None:
                    try:
                        next(other)
                    except Exception:
                        other = None
                ex.apply(a)
                if keep_stream:
                    res["stream"].append(akey(a))
                if ex.finalize_request is not None:
                    try:
                        sched.finalize(ex.finalize_request)
                    except Exception as exc:
                        ex.v("C10", "finalize_at_true_end_accepted",
                             "%s: %s" % (type(exc).__name__, exc))
                    ex.finalized()
                if observe:
                    try:       # C18: every emitted action is a value object whose repr evaluates back to it
                        back = eval(repr(a), _REPR_NS)
                        if not (back == a and a == back and type(back) is type(a)):
                            ex.v("C18", "repr_evaluates_back", "%r evaluates to %r" % (a, back))
                    except Exception as exc:
                        ex.v("C18", "repr_evaluates_back", "%r: %s: %s" % (a, type(exc).__name__, exc))
                    ex.check_counters(sched, a)
                    try:
                        if sched.is_running is not True:
                            ex.v("C09", "is_running_true_after_first_action", "")
                        exh = sched.is_exhausted
                        if bool(exh) != bool(ex.done):
                            ex.v("C09", "is_exhausted_iff_final_action_emitted",
                                 "is_exhausted=%s final_emitted=%s after %s" % (
                                     exh, ex.done, type(a).__name__))
                    except Exception as exc:
                        ex.v("C09", "observer_raised", "%s: %s" % (type(exc).__name__, exc))
                if isinstance(a, EndForward):
                    pass_start = count
                if isinstance(a, EndReverse):
                    res["pass_bounds"].append((pass_start, count))
                    pass_start = count
                    if ex.done or ex.passes >= want:
                        break
                if ex.done:
                    break
            if ex.done:
                # nothing but StopIteration, and it persists
                for k in range(2):
                    try:
                        extra = next(sched)
                        ex.index = count
                        ex.v("C02", "nothing_after_last_EndReverse", repr(akey(extra)))
                        ex.v("C09", "StopIteration_after_final_action", repr(akey(extra)))
                        break
                    except StopIteration:
                        pass
    except Exception as exc:
        res["error"] = (type(exc).__name__, str(exc)[:200], count, "iterate")
    if res["error"] is None and allowed != 0 and ex.passes < min(want, 1):
        ex.v("C02", "no_complete_adjoint_pass", "actions=%d" % count)
    res["n_actions"] = count
    res["stats"] = _stats(ex)
    res["stdout"] = out.getvalue()[:200]
    return res


def _stats(ex):
    return {"fwd_steps": ex.fwd_steps, "rev_steps": ex.rev_steps,
            "disk_writes": ex.disk_writes, "disk_loads": ex.disk_loads,
            "ram_writes": ex.ram_writes, "ram_loads": ex.ram_loads,
            "max_ram": ex.max_ram, "max_disk": ex.max_disk, "passes": ex.passes,
            "done": ex.done}
