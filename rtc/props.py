"""Bounded stand-in (DESIGN.md section 9): run-time checking of the contracts on
the real classes over finite boxes.  Never counted as proved.

Every function returns a dict
  {evaluations, distinct_nontrivial, rule, samples, exhaustive, box, clauses,
   violations: [{property, clause, spec, detail}]}
"""
import contextlib
import io
import itertools
import math
import multiprocessing as mp
import os
import random
import sys
import warnings

from . import boxes
from .driver import drive, build, CLASSES, ONLINE, REVOLVE_FAMILY, ST, passes_allowed
from .executor import akey

sys.setrecursionlimit(100000)
NPROC = int(os.environ.get("VERIF_NPROC", "16"))

STREAM_PROPS = ("C01", "C02", "C03", "C04", "C08", "C09", "C12", "C18", "C17", "C10")


def _pool_map(fn, items, chunk=8):
    items = list(items)
    if len(items) < 32 or NPROC <= 1:
        return [fn(x) for x in items]
    with mp.get_context("fork").Pool(NPROC) as pool:
        return pool.map(fn, items, chunksize=max(1, min(chunk, len(items) // (4 * NPROC) or 1)))


def _exec_viol(viol):
    """first executability violation (C01/C02 clause of the reference executor) of a stream: a
    stream that an executor cannot carry out does not attain any optimum"""
    for p, c, d in viol:
        if p in ("C01", "C02"):
            return "%s: %s" % (c, d)
    return None


def _result(box, rule, clauses):
    return {"evaluations": 0, "distinct_nontrivial": 0, "rule": rule, "samples": [],
            "exhaustive": True, "box": box, "clauses": clauses, "violations": []}


def _viol(prop, clause, spec, detail):
    return {"property": prop, "clause": clause, "spec": list(spec) if spec else None,
            "detail": str(detail)[:400]}


# ------------------------------------------------------------------ streams
def _stream_worker(job):
    spec, passes = job[:2]
    # (the interference pass also obtains every action through a fresh `for` statement)
    r = drive(spec, passes=passes, keep_stream=True, interfere=job[2] if len(job) > 2 else None,
              via_for=len(job) > 2)
    seen = {}
    for p, c, d in r["viol"]:
        seen.setdefault((p, c), d)
    nontrivial = any(k[0] in ("Copy", "Move") for k in r["stream"])
    # exact repeat of further passes (C09)
    rep = None
    pb = r["pass_bounds"]
    if len(pb) >= 2:
        first = r["stream"][pb[0][0]:pb[0][1]]
        for (a, b) in pb[1:]:
            if r["stream"][a:b] != first:
                rep = "pass streams differ: first=%s other=%s" % (first[:4], r["stream"][a:b][:4])
                break
    if rep:
        seen[("C09", "further_pass_is_exact_repeat")] = rep
    if r["error"] is not None:
        et, msg, cnt, where = r["error"]
        d = "%s during %s after %d actions: %s" % (et, where, cnt, msg)
        seen[("C17", "valid_parameters_yield_complete_stream")] = d
        if where == "iterate" and cnt > 0:
            # the schedule gave up in the middle of its own stream: not executable, not complete
            seen[("C01", "stream_raises_mid_way")] = d
            seen[("C02", "stream_ended_early")] = d
            seen[("C09", "stream_ended_early")] = d
    # violations in a later adjoint pass: the repeat is not an executable repeat (C09)
    pb0 = r["pass_bounds"]
    if len(pb0) >= 1:
        first_end = pb0[0][1]
        for p, c, d in r["viol"]:
            if p in ("C01", "C02", "C12") and d.startswith("action["):
                try:
                    idx = int(d[len("action["):d.index("]")])
                except ValueError:
                    continue
                if idx >= first_end:
                    seen.setdefault(("C09", "further_pass_is_executable_repeat"), "%s %s %s" % (p, c, d))
                    break
    for (label, d) in r.get("assumption", []):
        seen[("ASSUMED", "assumed_operation_shape:" + label)] = d
    return (spec, [(p, c, d) for (p, c), d in seen.items()], r["stats"],
            r.get("n_actions", 0), nontrivial, r["stream"][:12])


def stream_box(tier, seed, props):
    """Box Q/T run of the section-5 monitor; returns per-property results."""
    tp = boxes.tier_params(tier)
    specs = list(boxes.stream_specs(tier))
    exhaustive_count = len(specs)
    if tier == "thorough":
        specs += list(boxes.seeded_specs(seed, 600))
        specs += list(boxes.deep_specs())
    jobs = [(s, tp["passes"]) for s in specs]
    out = _pool_map(_stream_worker, jobs)
    # second pass over the exhaustive part in the opposite order: a stream must not depend on which
    # schedules were built before it in the same process (module- or class-level caches keyed by too
    # few parameters show up only in one of the two orders)
    out += _pool_map(_stream_worker, list(reversed(jobs[:exhaustive_count])))
    # third pass with interference: each schedule runs while another schedule of the same class (its
    # neighbour in the box) is alive and is advanced in lockstep - instances must not share state
    by_class = {}
    for s_ in specs[:exhaustive_count]:
        by_class.setdefault(s_[0], []).append(s_)
    inter = []
    for cls, lst in by_class.items():
        for k, s_ in enumerate(lst):
            inter.append((s_, tp["passes"], lst[(k + 7) % len(lst)]))
    out += _pool_map(_stream_worker, inter)
    res = {}
    for p in props:
        res[p] = _result(
            "box %s: n<=%d (HRevolve n<=%d), all unit counts/splits/trajectories/storages, "
            "periods<=%d, %d cost vectors, %d passes%s" % (
                "T" if tier == "thorough" else "Q", tp["nmax"], tp["nmax_h"], tp["pmax"],
                tp["ncost"], tp["passes"],
                "; plus %d seeded samples n<=400" % (len(specs) - exhaustive_count)
                if tier == "thorough" else ""),
            "every constructor tuple of the box is built on the real class and its stream is "
            "carried out by the reference executor; distinct = distinct tuples; non-trivial = "
            "stream contains at least one Copy/Move",
            [])
        res[p]["exhaustive"] = (tier != "thorough")
    for spec, viol, stats, nact, nontrivial, head in out:
        for p in props:
            r = res[p]
            r["evaluations"] += 1
            if nontrivial:
                r["distinct_nontrivial"] += 1
            if len(r["samples"]) < 3 and nontrivial and nact > 10:
                r["samples"].append({"spec": list(spec), "actions": nact, "head": head[:6]})
        for (p, c, d) in viol:
            if p in res:
                res[p]["violations"].append(_viol(p, c, spec, d))
            elif p == "ASSUMED":
                # an assumed contract of the VC layer does not hold on this input: not a violation of
                # the property, but the proofs resting on it do not apply -> undecided
                for q in props:
                    v = _viol(q, c, spec, d)
                    v["assumption"] = True
                    res[q]["violations"].append(v)
    return res


def spec_validation(r, prop, tier, which):
    """DESIGN.md 6.5: the oracles themselves against an exhaustive search over executable action
    sequences (small n)."""
    from . import optimum_search
    a, b = (8, 5) if tier == "thorough" else (6, 4)
    ev, viol = optimum_search.validate(a if "steps" in which else 0, b if "cost" in which else 0)
    r["evaluations"] += ev
    r["clauses"].append("spec_function_is_the_true_optimum(n<=%d steps / n<=%d costs, Dijkstra over executor states)" % (a, b))
    for what, inp, d in viol:
        r["violations"].append(_viol(prop, what, inp, d))


# ------------------------------------------------------------------ C05
def c05(tier, seed):
    from contracts import specs
    from checkpoint_schedules.multistage import n_advance, optimal_steps_binomial
    r = _result("", "", ["n_advance.T_adv_bridge", "stream_steps_equal_GW_optimum",
                         "optimal_steps_binomial_equals_GW_optimum", "gw_closed_form"])
    nb = 3000 if tier == "thorough" else 400
    r["box"] = ("n_advance bridge: all n<=%d, all u<=min(n-1,%d), both trajectories; streams: "
                "Multistage/Revolve box; optimal_steps_binomial n<=%d" % (
                    nb, 60 if tier == "thorough" else 30, 120 if tier == "thorough" else 60))
    r["rule"] = ("T_adv induced by the real n_advance compared with n+gw_extra(n,u); stream "
                 "forward steps counted by the reference executor; non-trivial = n>=3")
    # (a) bridge
    advance_bridge(r, "C05", tier)
    # closed form vs recurrence
    for n in range(1, 61):
        for s in range(1, n + 1):
            if n > 1 and specs.gw_extra(n, s) != specs.gw_extra_closed(n, s):
                r["violations"].append(_viol("C05", "gw_closed_form", ("gw", n, s),
                                             "recurrence!=closed form (oracle defect)"))
    _c05_rest(r, tier, seed, specs, optimal_steps_binomial)
    return r


def advance_bridge(r, prop, tier):
    """T_adv induced by the real n_advance (contracts/specs.py) == n + Griewank-Walther optimum: what
    turns the proved 'stream steps == WADV' (C05) and 'block steps == WADV' (C13) into optimality."""
    from contracts import specs
    from checkpoint_schedules.multistage import n_advance
    nb = 3000 if tier == "thorough" else 400
    umax = 60 if tier == "thorough" else 30
    for tr in boxes.TRAJ:
        T = specs.T_adv_factory(n_advance, tr)
        for n in range(1, nb + 1):
            for u in range(1, min(n - 1, umax) + 1) if n > 1 else [1]:
                r["evaluations"] += 1
                if n >= 3:
                    r["distinct_nontrivial"] += 1
                try:
                    got = T(n, u)
                except AssertionError as exc:
                    r["violations"].append(_viol(prop, "n_advance.T_adv_bridge",
                                                 ("n_advance", n, u, tr), exc))
                    continue
                want = n + specs.gw_extra_closed(n, u)
                if got != want:
                    r["violations"].append(_viol(
                        prop, "n_advance.T_adv_bridge", ("n_advance", n, u, tr),
                        "steps induced=%d optimum=%d" % (got, want)))


def _c05_rest(r, tier, seed, specs, optimal_steps_binomial):
    # (b) helper (exhaustive up to nh, then a few sizes beyond 2**7 .. 2**10; after the small ones, so
    # that a cache poisoned by a large call would show on a small one only in the reverse order - both
    # orders are run)
    nh = 120 if tier == "thorough" else 60
    pairs = [(n, s) for n in range(1, nh + 1) for s in range(min(1, n - 1), n)]
    pairs += [(n, s) for n in (130, 257, 520, 1030, 1100) for s in (1, 2, 3, 5)]
    for (n, s) in pairs + list(reversed(pairs)):
        for _once in (0,):
            r["evaluations"] += 1
            try:
                got = optimal_steps_binomial(n, s)
            except Exception as exc:
                r["violations"].append(_viol("C05", "optimal_steps_binomial_equals_GW_optimum",
                                             ("optimal_steps_binomial", n, s), repr(exc)))
                continue
            if got != n + specs.gw_extra_closed(n, s):
                r["violations"].append(_viol(
                    "C05", "optimal_steps_binomial_equals_GW_optimum",
                    ("optimal_steps_binomial", n, s),
                    "got=%d optimum=%d" % (got, n + specs.gw_extra_closed(n, s))))
    # (c) streams
    sp = list(boxes.multistage_specs(tier, splits="thin")) + \
        list(boxes.revolve_specs(tier, classes=("Revolve",)))
    # (both orders: see stream_box)
    out = _pool_map(_stream_worker, [(s, 1) for s in sp]) + _pool_map(_stream_worker, [(s, 1) for s in reversed(sp)])
    # (and under interference from another live schedule: see stream_box)
    out += _pool_map(_stream_worker, [(s, 1, sp[(k + 7) % len(sp)]) for k, s in enumerate(sp)])
    for spec, viol, stats, nact, nontrivial, head in out:
        name, args = spec[0], spec[1]
        n = args[0]
        s = (args[1] + args[2]) if name == "Multistage" else args[1]
        r["evaluations"] += 1
        if nontrivial:
            r["distinct_nontrivial"] += 1
        if _exec_viol(viol):
            r["violations"].append(_viol("C05", "optimal_stream_is_executable", spec, _exec_viol(viol)))
        err = [d for p, c, d in viol if p == "C17"]
        if err:
            r["violations"].append(_viol("C05", "adjoint_completed", spec, err[0]))
            continue
        want = n + specs.gw_extra_closed(n, s) if n > 1 else 1
        if stats["fwd_steps"] != want:
            r["violations"].append(_viol("C05", "stream_steps_equal_GW_optimum", spec,
                                         "forward steps=%d optimum=%d" % (stats["fwd_steps"], want)))
        if len(r["samples"]) < 3 and n > 8:
            r["samples"].append({"spec": list(spec), "fwd_steps": stats["fwd_steps"], "optimum": want})
    r["exhaustive"] = True
    spec_validation(r, "C05", tier, ("steps",))
    return r


# ------------------------------------------------------------------ C06
def c06(tier, seed):
    from contracts import specs
    from checkpoint_schedules.mixed import optimal_steps_mixed
    nmax = 200 if tier == "thorough" else 60
    r = _result("Mixed: all n<=%d, all s in [min(1,n-1), n], both storages" % nmax,
                "stream forward steps (reference executor) vs mixed_opt(n,s); non-trivial = "
                "stream with a Copy/Move", ["stream_steps_equal_mixed_optimum",
                                            "steps_independent_of_storage",
                                            "optimal_steps_mixed_equals_spec"])
    sp = []
    for n in range(1, nmax + 1):
        ss = range(min(1, n - 1), n + 3) if n <= 40 else \
            sorted(set(list(range(1, 12)) + [n // 3, n // 2, n - 2, n - 1, n, n + 2]))
        for s in ss:
            for st in ("RAM", "DISK"):
                sp.append(("Mixed", (n, s), (("storage", st),), n))
    out = _pool_map(_stream_worker, [(s, 1) for s in sp]) + _pool_map(_stream_worker, [(s, 1) for s in reversed(sp)])
    out += _pool_map(_stream_worker, [(s, 1, sp[(k + 7) % len(sp)]) for k, s in enumerate(sp)])
    by = {}
    for spec, viol, stats, nact, nontrivial, head in out:
        n, s = spec[1]
        r["evaluations"] += 1
        if nontrivial:
            r["distinct_nontrivial"] += 1
        err = [d for p, c, d in viol if p == "C17"]
        if err:
            r["violations"].append(_viol("C06", "adjoint_completed", spec, err[0]))
            continue
        if _exec_viol(viol):
            r["violations"].append(_viol("C06", "optimal_stream_is_executable", spec, _exec_viol(viol)))
        want = specs.mixed_opt(n, s)
        if stats["fwd_steps"] != want:
            r["violations"].append(_viol("C06", "stream_steps_equal_mixed_optimum", spec,
                                         "forward steps=%d optimum=%d" % (stats["fwd_steps"], want)))
        by.setdefault((n, s), set()).add(stats["fwd_steps"])
        if len(r["samples"]) < 3 and n > 10 and 1 < s < n - 1:
            r["samples"].append({"spec": list(spec), "fwd_steps": stats["fwd_steps"], "optimum": want})
    for (n, s), v in by.items():
        if len(v) > 1:
            r["violations"].append(_viol("C06", "steps_independent_of_storage",
                                         ("Mixed", (n, s)), "steps by storage: %s" % sorted(v)))
    for n in range(1, min(nmax, 80) + 1):
        for s in range(min(1, n - 1), n):
            if n == 1 and s == 0:
                pass
            try:
                got = optimal_steps_mixed(n, s)
            except Exception as exc:
                r["violations"].append(_viol("C06", "optimal_steps_mixed_equals_spec",
                                             ("optimal_steps_mixed", n, s), repr(exc)))
                continue
            r["evaluations"] += 1
            if got != specs.mixed_opt(n, s):
                r["violations"].append(_viol("C06", "optimal_steps_mixed_equals_spec",
                                             ("optimal_steps_mixed", n, s),
                                             "got=%d spec=%d" % (got, specs.mixed_opt(n, s))))
    spec_validation(r, "C06", tier, ("steps",))
    return r


# ------------------------------------------------------------------ C07
def _cost(stats, N, c):
    from contracts.specs import F
    uf, ub, wd, rd = (F(x) for x in c)
    return (uf * stats["fwd_steps"] + ub * stats["rev_steps"] + wd * stats["disk_writes"]
            + rd * stats["disk_loads"])


def _c07_worker(job):
    from contracts import specs
    n, s, dmax, c = job
    tab = specs.CostTables(*c)
    out = []
    costs = {}

    def run(spec):
        r = drive(spec, passes=1, keep_stream=False, observe=False)
        if r["error"] is None and n >= 4:
            # the same schedule while another one of its class (two steps shorter) is alive
            other = (spec[0], (n - 2,) + tuple(spec[1][1:]), spec[2], n - 2)
            r2 = drive(spec, passes=1, keep_stream=False, observe=False, interfere=other)
            if r2["error"] is not None or r2["stats"] != r["stats"] or _exec_viol(r2["viol"]):
                out.append(("independent_of_other_live_schedules", spec,
                            "alone: %s; next to %s: %s %s" % (r["stats"], other[:2], r2["error"], r2["stats"])))
        if r["error"] is not None:
            out.append(("adjoint_completed", spec, str(r["error"])))
            return None
        if _exec_viol(r["viol"]):
            out.append(("optimal_stream_is_executable", spec, _exec_viol(r["viol"])))
        return _cost(r["stats"], n, c)
    for cls in ("Revolve", "DiskRevolve", "PeriodicDiskRevolve"):
        spec = (cls, (n, s) + tuple(c), (), n)
        costs[cls] = (spec, run(spec))
    for d in range(0, dmax + 1):
        spec = ("HRevolve", (n, s, d) + tuple(c), (), n)
        costs[("H", d)] = (spec, run(spec))

    def ne(a, b):
        return abs(a - b) > 1e-9 * max(1, abs(a), abs(b))
    sp, v = costs["Revolve"]
    if v is not None and ne(v, tab.stream_revolve(n, s)):
        out.append(("revolve_cost_is_memory_only_optimum", sp,
                    "cost=%s optimum=%s" % (float(v), float(tab.stream_revolve(n, s)))))
    sp, v = costs["DiskRevolve"]
    if v is not None and ne(v, tab.stream_disk_revolve(n, s)):
        out.append(("disk_revolve_cost_is_disk_revolve_optimum", sp,
                    "cost=%s optimum=%s" % (float(v), float(tab.stream_disk_revolve(n, s)))))
    for d in range(0, dmax + 1):
        sp, v = costs[("H", d)]
        if v is None:
            continue
        want = tab.stream_hrevolve(n, s, d)
        if ne(v, want):
            out.append(("hrevolve_cost_is_hierarchical_optimum", sp,
                        "cost=%s optimum=%s" % (float(v), float(want))))
        if d > 0 and costs[("H", d - 1)][1] is not None and v > costs[("H", d - 1)][1] + 1e-9:
            out.append(("hrevolve_cost_monotone_in_disk_units", sp,
                        "cost(d=%d)=%s > cost(d=%d)=%s" % (d, float(v), d - 1,
                                                           float(costs[("H", d - 1)][1]))))
    dr, rv, pdr = costs["DiskRevolve"][1], costs["Revolve"][1], costs["PeriodicDiskRevolve"][1]
    if dr is not None and rv is not None and dr > rv + 1e-9:
        out.append(("disk_revolve_le_revolve", costs["DiskRevolve"][0],
                    "DR=%s R=%s" % (float(dr), float(rv))))
    if dr is not None and pdr is not None and pdr < dr - 1e-9:
        out.append(("periodic_ge_disk_revolve", costs["PeriodicDiskRevolve"][0],
                    "PDR=%s DR=%s" % (float(pdr), float(dr))))
    nruns = sum(1 for k, (sp, v) in costs.items() if v is not None)
    sample = {"n": n, "s": s, "costs": list(c),
              "HRevolve_by_d": [None if costs[("H", d)][1] is None else float(costs[("H", d)][1])
                                for d in range(dmax + 1)],
              "Revolve": None if rv is None else float(rv),
              "DiskRevolve": None if dr is None else float(dr)}
    return out, nruns, sample


def sequence_algebra_contracts(r):
    """Run-time validation of the *assumed* contracts of the sequence algebra
    (contracts/seq_revolve.py): Operation.__init__/cost, Sequence.__init__/insert/insert_sequence/
    shift/remove_useless_wm, on the real classes."""
    from fractions import Fraction
    from checkpoint_schedules.hrevolve_sequences.basic_functions import Operation, Sequence, Function
    from checkpoint_schedules.hrevolve_sequences.revolve import revolve
    from checkpoint_schedules.hrevolve_sequences.disk_revolve import disk_revolve
    params = {"uf": Fraction(3), "ub": Fraction(5), "wd": Fraction(7), "rd": Fraction(11), "up": 1}
    table = {"Forward": ([2, 6], 4 * params["uf"]), "Backward": ([6, 5], params["ub"]),
             "Read_disk": (3, params["rd"]), "Write_disk": (3, params["wd"]), "Read_memory": (3, 0),
             "Write_memory": (3, 0), "Write_Forward_memory": (3, 0), "Discard_memory": (3, 0),
             "Discard_disk": (3, 0), "Discard_Forward_memory": (3, 0), "Checkpoint": (3, 0)}
    n = 0

    def bad(what, d):
        r["violations"].append(_viol("C07", "sequence_algebra_contracts", ("seq", what), d))
    for t, (idx, want) in table.items():
        op = Operation(t, idx, params)
        n += 1
        if not (op.type == t and op.index == idx and op.params is params):
            bad("Operation.__init__", t)
        if op.cost() != want:
            bad("Operation.cost", "%s: %s expected %s" % (t, op.cost(), want))
        seq = Sequence(Function("Revolve", 3, 1))
        if seq.makespan != 0:
            bad("Sequence.__init__", seq.makespan)
        seq.insert(Operation("Forward", [0, 2], params))
        before = seq.makespan
        seq.insert(op)
        if seq.makespan != before + want:
            bad("Sequence.insert", t)
    for l in range(0, 8):
        for cm in range(1, 4):
            a = revolve(l, cm, 2, 2, 3, 5)
            b = disk_revolve(l, cm, 2, 2, 3, 5)
            for sq in (a, b):
                n += 1
                m0 = sq.makespan
                if sq.shift(4) is not sq or sq.makespan != m0:
                    bad("Sequence.shift", (l, cm))
                outer = Sequence(Function("Revolve", l, cm))
                outer.insert(Operation("Forward", [0, 1], params))
                m1 = outer.makespan
                outer.insert_sequence(sq)
                if outer.makespan != m1 + m0:
                    bad("Sequence.insert_sequence", (l, cm))
            m0 = a.makespan
            if a.remove_useless_wm() is not a or a.makespan != m0:
                bad("Sequence.remove_useless_wm", (l, cm))
    # makespan == sum of the costs of the flattened operations (what links the builders' makespan
    # contracts to the iterator's stream-cost obligation), and the contract-language op_cost() used
    # there == Operation.cost() when RAM transfers are free
    from checkpoint_schedules.hrevolve_sequences.hrevolve import hrevolve
    from checkpoint_schedules.hrevolve_sequences.periodic_disk_revolve import periodic_disk_revolve
    import contextlib, io

    def spec_op_cost(op, uf, ub, wd, rd):
        t, ix = op.type, op.index
        if t == "Forward":
            return (ix[1] - ix[0]) * uf
        if t == "Backward":
            return ub
        if t == "Read_disk" or (t == "Read" and ix[0] == 1):
            return rd
        if t == "Write_disk" or (t in ("Write", "Write_Forward") and ix[0] == 1):
            return wd
        return 0
    uf, ub, wd, rd = Fraction(3), Fraction(5), Fraction(7), Fraction(11)
    for l in range(0, 9):
        for cm in range(1, 4):
            seqs = [("revolve", revolve(l, cm, rd, wd, uf, ub)), ("disk_revolve", disk_revolve(l, cm, rd, wd, uf, ub))]
            with contextlib.redirect_stdout(io.StringIO()):
                seqs.append(("periodic_disk_revolve", periodic_disk_revolve(l, cm, rd, wd, uf, ub)))
            for d in range(0, 3):
                seqs.append(("hrevolve", hrevolve(l, (cm, d), [0, wd], [0, rd], uf, ub)))
            for name, sq in seqs:
                n += 1
                ops = list(sq)
                total = sum(op.cost() for op in ops)
                if total != sq.makespan:
                    bad("makespan_is_sum_of_operation_costs", "%s l=%d cm=%d: %s vs %s" % (name, l, cm, total, sq.makespan))
                for op in ops:
                    if spec_op_cost(op, uf, ub, wd, rd) != op.cost():
                        bad("op_cost_is_Operation_cost", "%s %s %r" % (name, op.type, op.index))
                        break
    r["evaluations"] += n
    r["clauses"].append("sequence_algebra_contracts")


def c07(tier, seed):
    tp = boxes.tier_params(tier)
    r = _result("n<=%d, RAM units<=%d, disk units<=%d, %d cost vectors incl. uf!=ub, wd!=rd, zeros" % (
        tp["nmax_h"], 3 if tier == "quick" else 4, tp["dmax"], len(boxes.COSTS)),
        "stream cost (uf*forward steps + ub*reversed + wd*DISK writes + rd*DISK loads, counted "
        "by the reference executor) vs the H-Revolve / Disk-Revolve / Revolve recurrences in "
        "exact rationals; non-trivial = n>=3",
        ["hrevolve_cost_is_hierarchical_optimum", "disk_revolve_cost_is_disk_revolve_optimum",
         "revolve_cost_is_memory_only_optimum", "hrevolve_cost_monotone_in_disk_units",
         "disk_revolve_le_revolve", "periodic_ge_disk_revolve"])
    jobs = [(n, s, tp["dmax"], c) for c in boxes.COSTS for n in range(1, tp["nmax_h"] + 1)
            for s in range(1, (3 if tier == "quick" else 4) + 1)]
    if tier == "thorough":
        # a few larger instances: candidate lists longer than 32, many disk units
        for c in ((1, 1, 2, 2), (1, 1, 3, 5), (2, 1, 10, 9)):
            jobs += [(35, 1, 4, c), (34, 1, 10, c), (40, 2, 7, c), (60, 3, 5, c)]
        rng = random.Random(seed)
        for _ in range(150):
            c = (rng.choice([1, 2, 3, .5, 1.5, 7]), rng.choice([1, 2, 3, .5]),
                 rng.choice([0, .25, 1, 2, 7, 30]), rng.choice([0, .25, 1, 2, 7, 30]))
            jobs.append((rng.randint(10, 34), rng.randint(1, 4), 3, c))
        r["exhaustive"] = False
    # both orders: the cost of a schedule must not depend on the schedules built before it (stale
    # tables cached under a key that omits a cost parameter)
    njobs = len(jobs)
    jobs = jobs + list(reversed(jobs[:njobs]))
    out = _pool_map(_c07_worker, jobs, chunk=2)
    for (viol, nruns, sample), job in zip(out, jobs):
        r["evaluations"] += nruns
        if job[0] >= 3:
            r["distinct_nontrivial"] += nruns
        if len(r["samples"]) < 3 and job[0] >= 8 and job[3][0] != job[3][1]:
            r["samples"].append(sample)
        for clause, spec, d in viol:
            r["violations"].append(_viol("C07", clause, spec, d))
    sequence_algebra_contracts(r)
    spec_validation(r, "C07", tier, ("cost",))
    return r


# ------------------------------------------------------------------ C10
def _c10_worker(job):
    """One seeded history of next()/finalize(k) against the contract's abstract
    state machine (told, finalised)."""
    seed, idx = job
    rng = random.Random((seed << 20) ^ idx)
    kind = rng.choice(["SingleMemory", "SingleDisk", "SingleDiskMove", "NoneSchedule", "TwoLevel",
                       "TwoLevel", "Multistage", "Mixed", "Revolve", "HRevolve"])
    N = rng.randint(1, 12)
    if kind == "SingleMemory":
        spec = ("SingleMemory", (), (), N)
    elif kind == "SingleDisk":
        spec = ("SingleDisk", (), (("move_data", False),), N)
    elif kind == "SingleDiskMove":
        spec = ("SingleDisk", (), (("move_data", True),), N)
    elif kind == "NoneSchedule":
        spec = ("NoneSchedule", (), (), N)
    elif kind == "TwoLevel":
        spec = ("TwoLevel", (rng.randint(1, 5), rng.randint(0, 3)),
                (("binomial_storage", rng.choice(["RAM", "DISK"])),), N)
    elif kind == "Multistage":
        spec = ("Multistage", (N, rng.randint(0, 3), rng.randint(1, 3)), (), N)
    elif kind == "Mixed":
        spec = ("Mixed", (N, rng.randint(1, 4)), (), N)
    elif kind == "Revolve":
        spec = ("Revolve", (N, rng.randint(1, 3)), (), N)
    else:
        spec = ("HRevolve", (max(N, 2), rng.randint(1, 3), rng.randint(1, 3)), (), max(N, 2))
        N = max(N, 2)
    online = spec[0] in ONLINE
    viol = []
    hist = []
    with contextlib.redirect_stdout(io.StringIO()), warnings.catch_warnings():
        warnings.simplefilter("ignore")
        sched = build(spec)
        twin = build(spec)          # never receives a rejected call
        told = 0                    # n1 of the last emitted Forward (0 before the first)
        fin = None if online else N  # max_n as the contract's state machine knows it
        fwd_pos = 0                 # where the forward state stands according to the stream
        length = rng.randint(1, 40)
        expect_end_forward = False
        for step in range(length):
            if rng.random() < 0.45:
                k = rng.choice([rng.randint(-2, N + 3), told, told, N, fin or N, 0, 1])
                hist.append(("finalize", k))
                # decision table of the statement
                if k < 1:
                    want = "ValueError"
                elif fin is None:
                    want = "accept" if told >= k else "RuntimeError"
                else:
                    want = "noop" if (k == fin and fwd_pos == fin) else "RuntimeError"
                before = (sched.n, sched.r, sched.max_n)
                try:
                    sched.finalize(k)
                    got = "returned"
                except ValueError:
                    got = "ValueError"
                except RuntimeError:
                    got = "RuntimeError"
                except Exception as exc:
                    got = type(exc).__name__
                after = (sched.n, sched.r, sched.max_n)
                if want == "accept":
                    if got != "returned":
                        viol.append(("finalize_accepts_iff_told_at_least_n",
                                     "k=%d told=%d got=%s" % (k, told, got)))
                    else:
                        if after[2] != k or after[0] != k:
                            viol.append(("accepted_finalize_sets_max_n_and_n",
                                         "k=%d after=%s" % (k, after)))
                        twin.finalize(k)
                        fin = k
                        fwd_pos = k
                        expect_end_forward = True
                elif want == "noop":
                    if got != "returned":
                        viol.append(("finalize_noop_iff_n_eq_max_n_and_forward_complete",
                                     "k=%d fin=%s fwd=%s got=%s" % (k, fin, fwd_pos, got)))
                    elif after != before:
                        viol.append(("noop_finalize_changes_nothing", "%s -> %s" % (before, after)))
                else:
                    if got != want:
                        viol.append(("finalize_rejects_everything_else",
                                     "k=%d told=%d fin=%s fwd=%s want=%s got=%s" % (
                                         k, told, fin, fwd_pos, want, got)))
                        if got == "returned":
                            break       # the state machines have diverged
                    elif after != before:
                        viol.append(("rejected_finalize_changes_nothing", "%s -> %s" % (before, after)))
            else:
                hist.append(("next",))
                try:
                    a = next(sched)
                except StopIteration:
                    a = None
                except Exception as exc:
                    a = ("raise", type(exc).__name__)
                try:
                    b = next(twin)
                except StopIteration:
                    b = None
                except Exception as exc:
                    b = ("raise", type(exc).__name__)
                ka = akey(a) if a is not None and not isinstance(a, tuple) else a
                kb = akey(b) if b is not None and not isinstance(b, tuple) else b
                if ka != kb:
                    viol.append(("rejected_calls_leave_stream_unchanged",
                                 "with rejected calls: %s without: %s" % (ka, kb)))
                    break
                if expect_end_forward:
                    if not (ka and ka[0] == "EndForward"):
                        viol.append(("next_action_after_accepted_finalize_is_EndForward", str(ka)))
                    expect_end_forward = False
                if ka is None or isinstance(ka, tuple) and ka[0] == "raise":
                    break
                if ka[0] == "Forward":
                    told = ka[2]
                    fwd_pos = ka[2] if fin is None else min(ka[2], fin)
                elif ka[0] in ("Copy", "Move"):
                    fwd_pos = ka[1]
                    told = ka[1]
                if fin is None and ka[0] == "Forward" and ka[2] >= N and rng.random() < 0.6:
                    # protocol-respecting finalisation at the true end
                    hist.append(("finalize", N))
                    try:
                        sched.finalize(N)
                        twin.finalize(N)
                    except Exception as exc:
                        viol.append(("finalize_accepts_iff_told_at_least_n",
                                     "true end N=%d told=%d: %s" % (N, told, type(exc).__name__)))
                        break
                    if sched.max_n != N or sched.n != N:
                        viol.append(("accepted_finalize_sets_max_n_and_n",
                                     "N=%d after=%s" % (N, (sched.n, sched.max_n))))
                    fin = N
                    fwd_pos = N
                    expect_end_forward = True
    return spec, hist, viol


def c10(tier, seed):
    count = 50000 if tier == "thorough" else 3000
    r = _result("%d seeded histories (seed %d) of next()/finalize(k), length<=40, k in -2..N+3, "
                "N<=12, all online classes and four offline ones" % (count, seed),
                "each history is compared call by call with the decision table of the statement "
                "and with a twin object that never receives the rejected calls; non-trivial = "
                "history containing at least one accepted and one rejected finalize",
                ["finalize_accepts_iff_told_at_least_n", "accepted_finalize_sets_max_n_and_n",
                 "finalize_noop_iff_n_eq_max_n_and_forward_complete",
                 "finalize_rejects_everything_else", "rejected_finalize_changes_nothing",
                 "rejected_calls_leave_stream_unchanged",
                 "next_action_after_accepted_finalize_is_EndForward"])
    r["exhaustive"] = False
    out = _pool_map(_c10_worker, [(seed, i) for i in range(count)], chunk=64)
    seen = set()
    for spec, hist, viol in out:
        r["evaluations"] += 1
        key = (spec, tuple(hist))
        if key not in seen:
            seen.add(key)
            fs = [h for h in hist if h[0] == "finalize"]
            if len(fs) >= 2:
                r["distinct_nontrivial"] += 1
        if len(r["samples"]) < 3 and len(hist) > 6:
            r["samples"].append({"spec": list(spec), "history": [list(h) for h in hist[:14]]})
        for clause, d in viol:
            r["violations"].append(_viol("C10", clause, spec, d + " history=%s" % (hist[:30],)))
    return r


# ------------------------------------------------------------------ C11
def _c11_worker(spec):
    viol = []
    used = set()
    members = list(ST.values())
    try:
        with contextlib.redirect_stdout(io.StringIO()), warnings.catch_warnings():
            warnings.simplefilter("ignore")
            sched = build(spec)
    except Exception:
        return spec, viol, 0
    N = spec[3]

    def query(when):
        ans = {}
        for m in members:
            try:
                ans[m] = sched.uses_storage_type(m)
            except Exception as exc:
                viol.append(("uses_storage_type_never_raises",
                             "%s: uses_storage_type(%s) raised %s: %s" % (when, m.name,
                                                                          type(exc).__name__, exc)))
                ans[m] = None
        return ans
    answers = [query("before iteration")]
    count = 0
    allowed = passes_allowed(spec)
    try:
        with contextlib.redirect_stdout(io.StringIO()), warnings.catch_warnings():
            warnings.simplefilter("ignore")
            passes = 0
            while count < 100000:
                try:
                    a = next(sched)
                except StopIteration:
                    break
                count += 1
                k = akey(a)
                if k[0] == "Forward":
                    if k[5] in ("RAM", "DISK"):
                        used.add(k[5])
                    if sched.max_n is None and k[2] >= N:
                        sched.finalize(N)
                elif k[0] in ("Copy", "Move"):
                    for x in (k[2], k[3]):
                        if x in ("RAM", "DISK"):
                            used.add(x)
                if count in (1, 7):
                    answers.append(query("during iteration"))
                if k[0] == "EndReverse":
                    passes += 1
                    if passes >= 2 or allowed == 1:
                        break
                if k[0] == "EndForward" and allowed == 0:
                    break
    except Exception:
        pass
    answers.append(query("after iteration"))
    for ans in answers:
        for st in used:
            if ans[ST[st]] is not True and ans[ST[st]] is not None:
                viol.append(("uses_storage_type_true_for_every_storage_touched",
                             "stream touches %s but uses_storage_type(%s)=%r" % (st, st, ans[ST[st]])))
                break
    return spec, viol, count


def c11(tier, seed):
    r = _result("stream box (all classes), every StorageType member queried before, during and "
                "after iteration", "distinct constructor tuples; non-trivial = the stream touches "
                "RAM or DISK", ["uses_storage_type_never_raises",
                                "uses_storage_type_true_for_every_storage_touched"])
    specs = list(boxes.basic_specs(tier)) + list(boxes.multistage_specs("quick")) + \
        list(boxes.mixed_specs(tier)) + list(boxes.twolevel_specs("quick")) + \
        list(boxes.revolve_specs(tier))
    out = _pool_map(_c11_worker, specs)
    for spec, viol, count in out:
        r["evaluations"] += 1
        if count > 3:
            r["distinct_nontrivial"] += 1
        if len(r["samples"]) < 3 and count > 20:
            r["samples"].append({"spec": list(spec), "actions": count})
        seen = set()
        for clause, d in viol:
            if clause not in seen:
                seen.add(clause)
                r["violations"].append(_viol("C11", clause, spec, d))
    return r


# ------------------------------------------------------------------ C13
def _c13_worker(spec):
    from contracts import specs
    name, args, kwargs, N = spec
    period, b = args
    kw = dict(kwargs)
    viol = []
    r = drive(spec, passes=3, keep_stream=True, observe=False)
    if r["error"] is not None:
        return spec, [("stream_error", str(r["error"]))], 0
    if _exec_viol(r["viol"]):
        viol.append(("recomputation_stream_is_executable", _exec_viol(r["viol"])))
    stream = r["stream"]
    # forward phase: exactly Forward(k*p,(k+1)*p,True,False,DISK), k = 0,1,...
    k = 0
    i = 0
    while i < len(stream) and stream[i][0] == "Forward":
        want = ("Forward", k * period, (k + 1) * period, True, False, "DISK")
        if stream[i] != want:
            viol.append(("forward_phase_is_periodic_disk_checkpointing",
                         "action[%d]=%s expected %s" % (i, stream[i], want)))
            break
        k += 1
        i += 1
    if k != math.ceil(N / period):
        viol.append(("forward_phase_is_periodic_disk_checkpointing",
                     "emitted %d periodic forwards for N=%d period=%d" % (k, N, period)))
    bst = kw.get("binomial_storage", "DISK")
    # per pass, per block: forward steps = binomial optimum for L steps with b+1 units
    for (a0, a1) in r["pass_bounds"]:
        steps = {}
        e = N
        for act in stream[a0:a1]:
            if act[0] == "Forward":
                n0, n1 = act[1], min(act[2], N)
                blk = (n0 // period)
                steps[blk] = steps.get(blk, 0) + (n1 - n0)
                if act[3] and act[5] != bst:
                    viol.append(("extra_checkpoints_only_in_binomial_storage", str(act)))
                if (n1 - 1) // period != blk:
                    viol.append(("recomputation_stays_inside_block", str(act)))
        for blk in range(math.ceil(N / period)):
            L = min((blk + 1) * period, N) - blk * period
            want = L + specs.gw_extra_closed(L, b + 1) if L > 1 else 1
            if steps.get(blk, 0) != want:
                viol.append(("block_recomputed_with_binomial_optimum",
                             "block %d length %d: steps=%d optimum(L,%d units)=%d" % (
                                 blk, L, steps.get(blk, 0), b + 1, want)))
    return spec, viol, len(stream)


def c13(tier, seed):
    tp = boxes.tier_params(tier)
    nmax = 120 if tier == "thorough" else 40
    r = _result("period 1..9, binomial_snapshots 0..4, both storages, both trajectories, all N<=%d, "
                "3 passes" % nmax, "per-block forward steps counted from the real stream vs "
                "L+gw_extra(L, b+1); non-trivial = N > period",
                ["forward_phase_is_periodic_disk_checkpointing",
                 "block_recomputed_with_binomial_optimum",
                 "extra_checkpoints_only_in_binomial_storage", "recomputation_stays_inside_block"])
    specs = []
    for N in range(1, nmax + 1):
        if N > 40 and N % 3:
            continue
        for period in range(1, 10):
            for b in range(0, 5):
                for st in ("RAM", "DISK"):
                    for tr in boxes.TRAJ:
                        specs.append(("TwoLevel", (period, b), (("binomial_storage", st),
                                                                ("binomial_trajectory", tr)), N))
    if tier == "thorough":
        specs = list(specs) + [sp_ for sp_ in boxes.deep_specs() if sp_[0] == "TwoLevel"]
    out = _pool_map(_c13_worker, specs)
    for spec, viol, count in out:
        r["evaluations"] += 1
        if spec[3] > spec[1][0]:
            r["distinct_nontrivial"] += 1
        if len(r["samples"]) < 3 and spec[3] > 20 and spec[1][0] > 3:
            r["samples"].append({"spec": list(spec), "actions": count})
        seen = set()
        for clause, d in viol:
            if clause not in seen:
                seen.add(clause)
                r["violations"].append(_viol("C13", clause, spec, d))
    # the blocks are proved to take WADV(L, b+1) steps; that this is the binomial optimum is the bridge
    advance_bridge(r, "C13", tier)
    r["clauses"].append("n_advance.T_adv_bridge")
    return r


# ------------------------------------------------------------------ C14
def _c14_worker(job):
    n, s, tr = job
    viol = []
    streams = {}
    nruns = 0
    base = None
    for sr in range(0, s + 1):
        sd = s - sr
        spec = ("Multistage", (n, sr, sd), (("trajectory", tr),), n)
        r = drive(spec, passes=1, keep_stream=True, observe=False)
        nruns += 1
        if r["error"] is not None:
            viol.append(("stream_error", spec, str(r["error"])))
            continue
        stream = r["stream"]
        # unlabelled stream
        unl = [tuple(x if x not in ("RAM", "DISK") else "*" for x in a) for a in stream]
        if base is None:
            base = (spec, unl)
        elif unl != base[1]:
            viol.append(("stream_same_for_every_split_up_to_labels", spec,
                         "differs from %s" % (base[0],)))
        # stack position of each checkpoint action, and its label
        stack = []
        label = {}
        ram_positions = set()
        disk_acc = 0
        pos_acc = {}
        for a in stream:
            if a[0] == "Forward" and a[3]:
                stack.append(a[1])
                pos = len(stack) - 1
                lab = a[5]
            elif a[0] in ("Copy", "Move"):
                pos = len(stack) - 1
                lab = a[2]
                if a[0] == "Move":
                    stack.pop()
            else:
                continue
            pos_acc[pos] = pos_acc.get(pos, 0) + 1
            if lab == "DISK":
                disk_acc += 1
            if pos in label and label[pos] != lab:
                viol.append(("stack_position_keeps_one_storage", spec,
                             "position %d: %s then %s" % (pos, label[pos], lab)))
            label[pos] = lab
        nram = sum(1 for v in label.values() if v == "RAM")
        if nram > sr:
            viol.append(("at_most_declared_units_labelled_RAM", spec,
                         "RAM positions=%d declared=%d" % (nram, sr)))
        # minimum DISK accesses over all ways of giving min(sr, #positions) positions to RAM
        w = sorted(pos_acc.values(), reverse=True)
        k = min(sr, len(w))
        best = sum(w[k:])
        if disk_acc != best:
            viol.append(("disk_accesses_minimal", spec,
                         "DISK accesses=%d minimum=%d weights=%s" % (disk_acc, best, w)))
    return job, viol, nruns


def c14(tier, seed):
    nmax = 60 if tier == "thorough" else 24
    r = _result("all n<=%d, all totals s<=min(n+1, 12), every split of s, both trajectories" % nmax,
                "for each (n, s, trajectory) the streams of all s+1 splits are compared; "
                "non-trivial = s>=2 and n>=4",
                ["stream_same_for_every_split_up_to_labels", "stack_position_keeps_one_storage",
                 "at_most_declared_units_labelled_RAM", "disk_accesses_minimal"])
    jobs = [(n, s, tr) for n in range(1, nmax + 1) for s in range(1 if n > 1 else 0, min(n + 1, 12) + 1)
            for tr in boxes.TRAJ]
    out = _pool_map(_c14_worker, jobs, chunk=2)
    for job, viol, nruns in out:
        r["evaluations"] += nruns
        if job[0] >= 4 and job[1] >= 2:
            r["distinct_nontrivial"] += nruns
        if len(r["samples"]) < 3 and job[0] > 15 and job[1] > 3:
            r["samples"].append({"n": job[0], "s": job[1], "trajectory": job[2], "splits": nruns})
        seen = set()
        for clause, spec, d in viol:
            if clause not in seen:
                seen.add(clause)
                r["violations"].append(_viol("C14", clause, spec, d))
    return r


# ------------------------------------------------------------------ C15
_FRESH_CODE = r"""
import sys, json
sys.path.insert(0, %r)
from rtc.driver import drive
specs = json.loads(sys.stdin.read())
out = []
for s in specs:
    s = (s[0], tuple(s[1]), tuple(tuple(x) for x in s[2]), s[3])
    r = drive(s, passes=2, keep_stream=True, observe=False)
    out.append([r["error"] and list(r["error"][:2]), r["stream"]])
print(json.dumps(out))
"""


def _jsonable(stream):
    return [list(a) for a in stream]


def c15(tier, seed):
    import json
    import subprocess
    count = 5000 if tier == "thorough" else 300
    rng = random.Random(seed)
    r = _result("%d seeded histories (seed %d): constructions / partial iterations / observer reads of "
                "other schedules preceding or interleaved with the schedule under observation" % (
                    count, seed),
                "stream of the observed object vs the stream of an equal tuple in a fresh "
                "interpreter; non-trivial = at least 3 foreign operations interleaved",
                ["stream_equals_fresh_interpreter_stream"])
    r["exhaustive"] = False
    pool = [s for s in boxes.stream_specs("quick") if s[3] >= 4]
    rng.shuffle(pool)
    subjects = pool[:count]
    # fresh interpreter reference streams (one subprocess per chunk of subjects)
    verif = os.path.dirname(os.path.dirname(os.path.abspath(__file__)))
    ref = []
    chunks = [subjects[i:i + 100] for i in range(0, len(subjects), 100)]

    def fresh(chunk):
        p = subprocess.run([sys.executable, "-c", _FRESH_CODE % verif],
                           input=json.dumps(chunk), capture_output=True, text=True,
                           env=dict(os.environ))
        if p.returncode != 0:
            raise RuntimeError("fresh interpreter failed: " + p.stderr[-400:])
        return json.loads(p.stdout)
    from concurrent.futures import ThreadPoolExecutor
    with ThreadPoolExecutor(NPROC) as tp:
        for res in tp.map(fresh, chunks):
            ref.extend(res)
    members = list(ST.values())

    def observe(s):
        try:
            s.n, s.r, s.max_n, s.is_exhausted, s.is_running
            for m in members[:2]:
                s.uses_storage_type(m)
        except Exception:
            pass
    with contextlib.redirect_stdout(io.StringIO()), warnings.catch_warnings():
        warnings.simplefilter("ignore")
        for subj, (rerr, rstream) in zip(subjects, ref):
            others = []
            foreign = 0
            # history before
            for _ in range(rng.randint(0, 4)):
                o = rng.choice(pool)
                try:
                    so = build(o)
                    for _ in range(rng.randint(0, 25)):
                        a = next(so)
                        if so.max_n is None and a.args and type(a).__name__ == "Forward" \
                                and a.args[1] >= o[3]:
                            so.finalize(o[3])
                    others.append((o, so))
                    foreign += 1
                except Exception:
                    pass
            try:
                sched = build(subj)
            except Exception as exc:
                if not rerr:
                    r["violations"].append(_viol("C15", "stream_equals_fresh_interpreter_stream",
                                                 subj, "construction failed only in-process: %r" % exc))
                continue
            N = subj[3]
            stream = []
            passes = 0
            err = None
            try:
                while len(stream) < 200000:
                    if rng.random() < 0.3:
                        observe(sched)
                    if others and rng.random() < 0.3:
                        o, so = rng.choice(others)
                        try:
                            a = next(so)
                            if so.max_n is None and type(a).__name__ == "Forward" and a.args[1] >= o[3]:
                                so.finalize(o[3])
                            observe(so)
                        except Exception:
                            pass
                        foreign += 1
                    if rng.random() < 0.05:
                        o = rng.choice(pool)
                        try:
                            others.append((o, build(o)))
                            foreign += 1
                        except Exception:
                            pass
                    try:
                        a = next(sched)
                    except StopIteration:
                        break
                    stream.append(akey(a))
                    if sched.max_n is None and type(a).__name__ == "Forward" and a.args[1] >= N:
                        sched.finalize(N)
                    if type(a).__name__ == "EndReverse":
                        passes += 1
                        if passes >= 2 or passes_allowed(subj) == 1:
                            break
                    if type(a).__name__ == "EndForward" and passes_allowed(subj) == 0:
                        break
            except Exception as exc:
                err = [type(exc).__name__, str(exc)[:200]]
            r["evaluations"] += 1
            if foreign >= 3:
                r["distinct_nontrivial"] += 1
            if _jsonable(stream) != rstream[:len(stream)] or (err is None) != (not rerr):
                # the fresh run stops after 2 passes as well; compare the common prefix + lengths
                r["violations"].append(_viol(
                    "C15", "stream_equals_fresh_interpreter_stream", subj,
                    "in-process stream (len %d, err %s) differs from fresh-interpreter stream "
                    "(len %d, err %s)" % (len(stream), err, len(rstream), rerr)))
            elif len(stream) != len(rstream) and err is None:
                r["violations"].append(_viol(
                    "C15", "stream_equals_fresh_interpreter_stream", subj,
                    "length %d vs fresh %d" % (len(stream), len(rstream))))
            if len(r["samples"]) < 3 and foreign >= 3:
                r["samples"].append({"subject": list(subj), "foreign_operations": foreign,
                                     "stream_length": len(stream)})
    return r


# ------------------------------------------------------------------ C16
def c16(tier, seed):
    import numpy as np
    import checkpoint_schedules.mixed as mixed
    from contracts import specs
    nmax = 400 if tier == "thorough" else 120
    r = _result("tables: all n<=%d, all s in [1,n-1]; streams: all n<=%d, all s, both storages "
                "with the tabulated path forced" % (nmax, 40 if tier == "thorough" else 24),
                "mixed_steps_tabulation cell vs mixed_step_memoization value vs the spec "
                "mixed_step; the tabulated iterator path is forced by setting the module "
                "attribute `numba` to a sentinel from the harness (no repository change); "
                "non-trivial = s>=2 and n>s+1",
                ["table_cell_equals_memoised_step", "both_planners_equal_spec",
                 "stream_same_on_both_paths", "int64_no_overflow"])
    smax = nmax - 1
    tab = mixed.mixed_steps_tabulation(nmax, smax)
    for n in range(1, nmax + 1):
        for s in range(1, n):
            r["evaluations"] += 1
            if s >= 2 and n > s + 1:
                r["distinct_nontrivial"] += 1
            cell = tuple(int(x) for x in tab[n, s])
            memo = tuple(int(x) for x in mixed.mixed_step_memoization(n, s))
            if cell != memo:
                r["violations"].append(_viol("C16", "table_cell_equals_memoised_step",
                                             ("mixed", n, s), "table=%s memo=%s" % (cell, memo)))
            if n <= 150:
                sp = specs.mixed_step(n, s)
                if memo != sp or cell != sp:
                    r["violations"].append(_viol("C16", "both_planners_equal_spec", ("mixed", n, s),
                                                 "table=%s memo=%s spec=%s" % (cell, memo, sp)))
            if len(r["samples"]) < 2 and n > 30 and 3 < s < 9:
                r["samples"].append({"n": n, "s": s, "cell": list(cell)})
    if int(tab.max()) >= 2 ** 62:
        r["violations"].append(_viol("C16", "int64_no_overflow", None, "max=%d" % int(tab.max())))
    ns = 40 if tier == "thorough" else 24
    saved = mixed.numba
    try:
        for n in range(1, ns + 1):
            for s in range(min(1, n - 1), n + 2):
                for st in ("RAM", "DISK"):
                    spec = ("Mixed", (n, s), (("storage", st),), n)
                    mixed.numba = None
                    a = drive(spec, keep_stream=True, observe=False)
                    mixed.numba = object()
                    b = drive(spec, keep_stream=True, observe=True)
                    mixed.numba = None
                    r["evaluations"] += 1
                    if a["error"] or b["error"] or a["stream"] != b["stream"]:
                        r["violations"].append(_viol(
                            "C16", "stream_same_on_both_paths", spec,
                            "memo err=%s len=%d; tabulated err=%s len=%d" % (
                                a["error"], len(a["stream"]), b["error"], len(b["stream"]))))
                    for p, c, d in b["viol"]:
                        if p in ("C01", "C02", "C18"):
                            r["violations"].append(_viol("C16", "stream_same_on_both_paths", spec,
                                                         "tabulated path breaks %s %s %s" % (p, c, d)))
                            break
    finally:
        mixed.numba = saved
    return r


# ------------------------------------------------------------------ C17
def _c17_worker(job):
    """Returns (spec, valid, outcome) with outcome in
    ok | raised_before_any_action | raised_after_N_actions | incomplete | hang."""
    spec, valid = job
    import signal

    def onalarm(sig, frm):
        raise TimeoutError("wall clock guard")
    signal.signal(signal.SIGALRM, onalarm)
    signal.alarm(20)
    try:
        r = drive(spec, passes=1, keep_stream=False, observe=False, max_actions=200000)
    except TimeoutError:
        return spec, valid, "hang", ""
    finally:
        signal.alarm(0)
    if r["error"] is None:
        done = r["stats"]["done"] or (passes_allowed(spec) != 1 and r["stats"]["passes"] >= 1)
        return spec, valid, ("ok" if done else "incomplete"), ""
    et, msg, cnt, where = r["error"]
    if et == "TimeoutError":
        return spec, valid, "hang", ""
    return spec, valid, ("raised_before_any_action" if cnt == 0 else "raised_after_%d_actions" % cnt), \
        "%s: %s" % (et, msg)


def c17_jobs(tier):
    nmax = 12 if tier == "thorough" else 7
    jobs = []
    S = ("RAM", "DISK", "WORK", "NONE")
    for n in range(0, nmax + 1):
        for sr in range(0, n + 3):
            for sd in range(0, n + 3):
                valid = n >= 1 and (n == 1 or sr + sd >= 1)
                for tr in boxes.TRAJ:
                    jobs.append((("Multistage", (n, sr, sd), (("trajectory", tr),), max(n, 1)), valid))
            for st in S:
                valid = n >= 1 and st in ("RAM", "DISK") and (n == 1 or sr >= 1)
                jobs.append((("Mixed", (n, sr), (("storage", st),), max(n, 1)), valid))
            for c in (boxes.COSTS[0], boxes.COSTS[3]):
                valid = n >= 1 and (sr >= 1)   # RAM units >= 1 required by the family
                valid1 = n >= 1 and (n == 1 or sr >= 1)
                for cls in ("Revolve", "DiskRevolve", "PeriodicDiskRevolve"):
                    # the documented domain: at least one RAM unit when max_n > 1
                    jobs.append(((cls, (n, sr) + tuple(c), (), max(n, 1)),
                                 valid1 if sr >= 1 or n > 1 else None))
                for sd in range(0, min(n + 3, 4)):
                    jobs.append((("HRevolve", (n, sr, sd) + tuple(c), (), max(n, 1)),
                                 valid1 if sr >= 1 or n > 1 else None))
    for N in range(1, nmax + 1):
        for period in range(0, 5):
            for b in range(0, 4):
                for st in S:
                    valid = period >= 1 and st in ("RAM", "DISK")
                    jobs.append((("TwoLevel", (period, b), (("binomial_storage", st),), N), valid))
        jobs.append((("SingleMemory", (), (), N), True))
        jobs.append((("SingleDisk", (), (("move_data", True),), N), True))
        jobs.append((("SingleDisk", (), (("move_data", False),), N), True))
        jobs.append((("NoneSchedule", (), (), N), True))
    return jobs


def c17(tier, seed):
    jobs = c17_jobs(tier)
    r = _result("n in 0..%d, unit counts 0..n+2, all four storages, period 0..4, two cost vectors" % (
        12 if tier == "thorough" else 7),
        "valid tuple: the stream must complete (20 s wall-clock guard); invalid tuple: must raise "
        "at construction or at the first next(); tuples the statement leaves open (max_n == 1 "
        "with no RAM unit in the Revolve family) must not fail after an action; non-trivial = "
        "tuple within 1 of the domain boundary",
        ["valid_parameters_yield_complete_stream", "invalid_parameters_fail_before_any_action"])
    out = _pool_map(_c17_worker, jobs)
    for spec, valid, outcome, msg in out:
        r["evaluations"] += 1
        args = spec[1]
        if len(args) >= 2 and (args[0] <= 2 or args[1] <= 1) or spec[0] == "TwoLevel" and args[0] <= 1:
            r["distinct_nontrivial"] += 1
        if valid is True and outcome != "ok":
            r["violations"].append(_viol("C17", "valid_parameters_yield_complete_stream", spec,
                                         "%s %s" % (outcome, msg)))
        elif valid is False and outcome != "raised_before_any_action":
            r["violations"].append(_viol("C17", "invalid_parameters_fail_before_any_action", spec,
                                         "%s %s" % (outcome, msg)))
        elif valid is None and outcome not in ("ok", "raised_before_any_action"):
            r["violations"].append(_viol("C17", "invalid_parameters_fail_before_any_action", spec,
                                         "%s %s" % (outcome, msg)))
        if len(r["samples"]) < 4 and valid is False and spec[0] in ("Mixed", "TwoLevel"):
            r["samples"].append({"spec": list(spec), "valid": valid, "outcome": outcome})
    return r


# ------------------------------------------------------------------ C18
def c18_values(tier, seed):
    """Equality laws, repr/eval round trip, len/iter/contains on directly
    constructed actions."""
    import checkpoint_schedules.schedule as S
    from checkpoint_schedules.schedule import (Forward, Reverse, Copy, Move, EndForward,
                                               EndReverse, StorageType)
    rng = random.Random(seed)
    count = 20000 if tier == "thorough" else 4000
    r = _result("%d seeded directly constructed actions (seed %d) and pairs of them, plus "
                "non-action operands" % (count, seed),
                "equality laws on pairs, repr/eval round trip, len/iter/contains; non-trivial = "
                "pair of the same kind differing in exactly one argument",
                ["eq_never_raises", "eq_iff_same_kind_and_args", "eq_reflexive_symmetric",
                 "repr_evaluates_back", "len_iter_contains_enumerate_steps"])
    r["exhaustive"] = False
    sts = list(StorageType)

    import sys as _sysm
    BIG = [_sysm.maxsize - 1, _sysm.maxsize, _sysm.maxsize + 1, 2 * _sysm.maxsize, 2 ** 64, 10 ** 30]

    def mk():
        k = rng.randrange(6)
        if rng.random() < 0.15:
            # steps around sys.maxsize (what an online schedule emits before it is finalised) and beyond
            b = rng.choice(BIG)
            if k in (0, 4):
                return Forward(b, b + rng.choice([1, 7]), rng.random() < .5, rng.random() < .5,
                               rng.choice(sts))
            if k in (1, 5):
                return Reverse(b + rng.choice([1, 7]), b, rng.random() < .5)
            if k == 2:
                return Copy(b, rng.choice(sts[:2]), rng.choice(sts))
            return Move(b, rng.choice(sts[:2]), rng.choice(sts))
        if k == 0:
            n0 = rng.randint(0, 30)
            return Forward(n0, n0 + rng.randint(1, 9), rng.random() < .5, rng.random() < .5,
                           rng.choice(sts))
        if k == 1:
            n0 = rng.randint(0, 30)
            return Reverse(n0 + rng.randint(1, 9), n0, rng.random() < .5)
        if k == 2:
            return Copy(rng.randint(0, 30), rng.choice(sts[:2]), rng.choice(sts))
        if k == 3:
            return Move(rng.randint(0, 30), rng.choice(sts[:2]), rng.choice(sts))
        if k == 4:
            return EndForward()
        return EndReverse()

    def perturb(a):
        args = list(a.args)
        if not args:
            return mk()
        i = rng.randrange(len(args))
        x = args[i]
        if isinstance(x, bool):
            args[i] = not x
        elif isinstance(x, int):
            args[i] = x + 1
        else:
            args[i] = rng.choice([s for s in sts if s is not x])
        try:
            return type(a)(*args)
        except Exception:
            return mk()
    ns = {k: getattr(S, k) for k in ("Forward", "Reverse", "Copy", "Move", "EndForward",
                                      "EndReverse", "StorageType")}
    import sys as _sys
    ns["sys"] = _sys

    def add(clause, a, b, d):
        if sum(1 for v in r["violations"] if v["clause"] == clause) < 5:
            r["violations"].append(_viol("C18", clause, ("pair", repr_safe(a), repr_safe(b)), d))

    def repr_safe(x):
        try:
            return repr(x)
        except Exception as exc:
            return "<repr raised %s>" % type(exc).__name__
    for i in range(count):
        a = mk()
        mode = rng.randrange(4)
        if mode == 0:
            b = type(a)(*a.args)
        elif mode == 1:
            b = perturb(a)
        elif mode == 2:
            b = mk()
        else:
            b = rng.choice([None, 0, "Forward", (), a.args, object(), StorageType.RAM, type(a)])
        r["evaluations"] += 1
        same = (type(a) is type(b)) and a.args == getattr(b, "args", None)
        if mode == 1:
            r["distinct_nontrivial"] += 1
        try:
            e1 = (a == b)
            e2 = (b == a)
            ne = (a != b)
            rf = (a == a)
        except Exception as exc:
            add("eq_never_raises", a, b, "%s: %s" % (type(exc).__name__, exc))
            continue
        if bool(e1) != same or bool(ne) == same:
            add("eq_iff_same_kind_and_args", a, b, "a==b is %r, a!=b is %r, expected equal=%r" % (e1, ne, same))
        if not rf or (isinstance(b, S.CheckpointAction) and bool(e1) != bool(e2)):
            add("eq_reflexive_symmetric", a, b, "a==a %r, a==b %r, b==a %r" % (rf, e1, e2))
        try:
            back = eval(repr(a), dict(ns))
            if not (type(back) is type(a) and back.args == a.args):
                add("repr_evaluates_back", a, back, "round trip differs")
        except Exception as exc:
            add("repr_evaluates_back", a, None, "%s: %s" % (type(exc).__name__, exc))
        if isinstance(a, (Forward, Reverse)):
            n0, n1 = a.n0, a.n1
            want = list(range(n0, n1)) if isinstance(a, Forward) else list(range(n1 - 1, n0 - 1, -1))
            try:
                ok = (len(a) == n1 - n0 and list(a) == want and
                      all((s in a) == (n0 <= s < n1) for s in range(n0 - 2, n1 + 3)))
            except Exception as exc:
                ok = False
            if not ok:
                add("len_iter_contains_enumerate_steps", a, None, "len=%s list=%s" % (len(a), list(a)[:6]))
        if len(r["samples"]) < 3 and mode == 1:
            r["samples"].append({"a": repr_safe(a), "b": repr_safe(b), "equal_expected": same})
    # sys.maxsize special case of __repr__
    import sys as _s
    a = Forward(0, _s.maxsize, False, True, StorageType.WORK)
    try:
        back = eval(repr(a), dict(ns))
        if back.args != a.args:
            add("repr_evaluates_back", a, back, "sys.maxsize round trip")
    except Exception as exc:
        add("repr_evaluates_back", a, None, repr(exc))
    # every action of MixedCheckpointSchedule on the tabulated (numba) planner path, forced from the
    # harness: plain ints, repr round trip (the default path is covered by the stream box)
    import checkpoint_schedules.mixed as _mixed
    for n in range(1, 13 if tier == "quick" else 31):
        for s_ in range(min(1, n - 1), min(n, 5) + 1):
            spec = ("Mixed", (n, s_), (("storage", "RAM" if (n + s_) % 2 else "DISK"),), n)
            _mixed.numba = object()
            try:
                b = drive(spec, keep_stream=False, observe=True)
            finally:
                _mixed.numba = None
            r["evaluations"] += 1
            for p_, c_, d_ in b["viol"]:
                if p_ == "C18" and sum(1 for v in r["violations"] if v["clause"] == c_) < 5:
                    r["violations"].append(_viol("C18", c_, spec, "tabulated planner path: " + d_))
    return r


# ------------------------------------------------------------------ C19
def _c19_worker(job):
    from contracts import specs
    n, cm, c = job
    uf, ub, wd, rd = c
    spec = ("PeriodicDiskRevolve", (n, cm) + tuple(c), (), n)
    viol = []
    r = drive(spec, passes=1, keep_stream=True, observe=False)
    if r["error"] is not None:
        return job, [("stream_error", str(r["error"]))], None
    if _exec_viol(r["viol"]):
        viol.append(("periodic_stream_is_executable", _exec_viol(r["viol"])))
    m = specs.period(cm, uf, wd, rd)
    l = n - 1
    want_writes = []
    k = 0
    while l - k * m > m:
        want_writes.append(k * m)
        k += 1
    stream = r["stream"]
    writes_fwd, writes_after, loads = [], [], {}
    phase_fwd = True
    for a in stream:
        if a[0] == "EndForward":
            phase_fwd = False
        if a[0] == "Forward" and a[5] == "DISK":
            (writes_fwd if phase_fwd else writes_after).append(a[1])
        if a[0] in ("Copy", "Move") and a[2] == "DISK":
            loads[a[1]] = loads.get(a[1], 0) + 1
        if a[0] in ("Copy", "Move") and a[3] == "DISK":
            writes_after.append(a[1])
    if writes_fwd != want_writes:
        viol.append(("disk_writes_at_multiples_of_closed_form_period",
                     "period(closed form)=%d writes=%s expected=%s" % (m, writes_fwd, want_writes)))
    if writes_after:
        viol.append(("no_disk_write_after_forward_sweep", "writes=%s" % writes_after))
    bad = {k: v for k, v in loads.items() if v != 1}
    if bad or sorted(loads) != sorted(writes_fwd):
        viol.append(("each_disk_checkpoint_read_exactly_once",
                     "loads=%s writes=%s" % (loads, writes_fwd)))
    # each segment reversed with the memory-only optimum: total forward steps
    seg = [m] * len(want_writes) + [n - m * len(want_writes)]
    want_steps = 0
    for i, L in enumerate(seg):
        # a segment of L steps (the last has L = remaining steps)
        want_steps += (L + specs.gw_extra_closed(L, cm) if L > 1 else L)
    # initial sweep over the non-final segments is paid once more
    want_steps += m * len(want_writes)
    if r["stats"]["fwd_steps"] != want_steps:
        viol.append(("segments_reversed_with_memory_only_optimum",
                     "forward steps=%d expected=%d (segments %s, cm=%d)" % (
                         r["stats"]["fwd_steps"], want_steps, seg, cm)))
    return job, viol, m


def c19(tier, seed):
    nmax = 200 if tier == "thorough" else 60
    r = _result("all n<=%d, RAM units 1..4, %d cost vectors" % (nmax, len(boxes.COSTS)),
                "positions of DISK writes/loads in the real stream vs the closed-form period "
                "(math.comb); non-trivial = at least one disk checkpoint is written",
                ["disk_writes_at_multiples_of_closed_form_period", "no_disk_write_after_forward_sweep",
                 "each_disk_checkpoint_read_exactly_once", "segments_reversed_with_memory_only_optimum",
                 "period_independent_of_n", "beta_equals_binomial"])
    from checkpoint_schedules.hrevolve_sequences.basic_functions import beta
    for x in range(0, 12):
        for y in range(-2, 14):
            want = math.comb(x + y, x) if y >= 0 else 0
            if beta(x, y) != want:
                r["violations"].append(_viol("C19", "beta_equals_binomial", ("beta", x, y),
                                             "beta=%r comb=%r" % (beta(x, y), want)))
    ns = range(1, nmax + 1) if tier == "quick" else [n for n in range(1, nmax + 1) if n <= 60 or n % 7 == 0]
    jobs = [(n, cm, c) for c in boxes.COSTS for cm in range(1, 5) for n in ns]
    out = _pool_map(_c19_worker, jobs) + _pool_map(_c19_worker, list(reversed(jobs)))
    periods = {}
    for job, viol, m in out:
        r["evaluations"] += 1
        n, cm, c = job
        if m is not None and n - 1 > m:
            r["distinct_nontrivial"] += 1
        spec = ("PeriodicDiskRevolve", (n, cm) + tuple(c), (), n)
        if len(r["samples"]) < 3 and m is not None and n - 1 > 2 * m:
            r["samples"].append({"spec": list(spec), "period": m})
        seen = set()
        for clause, d in viol:
            if clause not in seen:
                seen.add(clause)
                r["violations"].append(_viol("C19", clause, spec, d))
    return r
