"""Native replay of a solver counterexample for a function under contract.

Input (JSON on stdin): {"function": "multistage.n_advance", "class": None | "CheckpointSchedule",
  "params": {name: value}, "self_fields": {field: value | None}, "kwonly": [...],
  "requires": [[label, expr]], "ensures": [[label, expr]], "raises": [[Exc, expr]],
  "clause": failing clause text}
Runs the *real* function on the model's inputs under /venv/bin/python and evaluates the
contract natively.  Output: {"ran": bool, "outcome": ..., "violated": [labels], "confirmed": bool}
"""
import ast
import contextlib
import importlib
import io
import json
import sys

from checkpoint_schedules.schedule import StorageType

MODS = {
    "schedule": "checkpoint_schedules.schedule",
    "basic_schedules": "checkpoint_schedules.basic_schedules",
    "multistage": "checkpoint_schedules.multistage",
    "mixed": "checkpoint_schedules.mixed",
    "twolevel_binomial": "checkpoint_schedules.twolevel_binomial",
    "hrevolve": "checkpoint_schedules.hrevolve",
    "seq.basic_functions": "checkpoint_schedules.hrevolve_sequences.basic_functions",
    "seq.revolve": "checkpoint_schedules.hrevolve_sequences.revolve",
    "seq.hrevolve": "checkpoint_schedules.hrevolve_sequences.hrevolve",
    "seq.disk_revolve": "checkpoint_schedules.hrevolve_sequences.disk_revolve",
    "seq.periodic_disk_revolve": "checkpoint_schedules.hrevolve_sequences.periodic_disk_revolve",
    "seq.utils": "checkpoint_schedules.hrevolve_sequences.utils",
}
STORAGE = {0: StorageType.RAM, 1: StorageType.DISK, 2: StorageType.WORK, 3: StorageType.NONE}


def implies(a, b):
    return (not a) or b


def forall(lo, hi, f):
    import itertools
    n = f.__code__.co_argcount
    return all(f(*t) for t in itertools.product(range(lo, hi), repeat=n))


def exists(lo, hi, f):
    import itertools
    n = f.__code__.co_argcount
    return any(f(*t) for t in itertools.product(range(lo, hi), repeat=n))


class Old(ast.NodeTransformer):
    def __init__(self, env_old):
        self.env_old = env_old

    def visit_Call(self, node):
        if isinstance(node.func, ast.Name) and node.func.id == "old":
            val = eval(compile(ast.Expression(node.args[0]), "<old>", "eval"), dict(self.env_old))
            return ast.copy_location(ast.Constant(val), node)
        return self.generic_visit(node)


def evaluate(expr, env, env_old):
    tree = ast.parse(expr.strip(), mode="eval")
    tree = ast.fix_missing_locations(Old(env_old).visit(tree))
    return eval(compile(tree, "<contract>", "eval"), dict(env))


class Snap:
    def __init__(self, d):
        self.__dict__.update(d)


def decode(v, ty):
    if ty == "storage" and isinstance(v, int):
        return STORAGE.get(v, StorageType.NONE)
    return v


def main():
    job = json.load(sys.stdin)
    modname, qual = None, None
    for m in sorted(MODS, key=len, reverse=True):
        if job["function"].startswith(m + "."):
            modname, qual = m, job["function"][len(m) + 1:]
            break
    out = {"ran": False, "outcome": None, "violated": [], "confirmed": False}
    if modname is None or "<locals>" in qual:
        out["outcome"] = "no native entry point for " + job["function"]
        print(json.dumps(out))
        return
    mod = importlib.import_module(MODS[modname])
    if qual == "hrevolve" and not callable(getattr(mod, "hrevolve", None)):
        pass
    obj = mod
    parts = qual.split(".")
    for p in parts:
        obj = getattr(obj, p)
    types = job.get("types", {})
    params = {k: decode(v, types.get(k)) for k, v in job["params"].items()}
    base = {"StorageType": StorageType, "implies": implies, "forall": forall, "exists": exists,
            "min": min, "max": max, "len": len, "hasattr": hasattr, "MAXSIZE": sys.maxsize}
    selfobj = None
    is_prop = isinstance(obj, property)
    if job.get("class"):
        cls = getattr(mod, parts[0])
        selfobj = object.__new__(cls)
        for f, v in (job.get("self_fields") or {}).items():
            if v == "__absent__":
                continue
            setattr(selfobj, f, decode(v, (job.get("field_types") or {}).get(f)))
    env_old = dict(base)
    env_old.update(params)
    if selfobj is not None:
        env_old["self"] = Snap(dict(selfobj.__dict__))
    # preconditions must hold for the model to be a legitimate input
    for label, expr in job.get("requires", []):
        try:
            if not evaluate(expr, env_old, env_old):
                out["outcome"] = "model violates precondition %s (spurious)" % label
                print(json.dumps(out))
                return
        except Exception as exc:
            out["outcome"] = "cannot evaluate precondition %s natively: %r" % (label, exc)
            print(json.dumps(out))
            return
    raised = None
    result = None
    import inspect
    try:
        sig = inspect.signature(obj.fget if is_prop else obj)
        job["kwonly"] = [k for k, prm in sig.parameters.items() if prm.kind == prm.KEYWORD_ONLY]
    except (TypeError, ValueError):
        pass
    try:
        with contextlib.redirect_stdout(io.StringIO()):
            if is_prop:
                result = obj.fget(selfobj)
            elif selfobj is not None:
                kw = {k: v for k, v in params.items() if k in job.get("kwonly", [])}
                pos = [v for k, v in params.items() if k not in kw]
                result = obj(selfobj, *pos, **kw)
            else:
                kw = {k: v for k, v in params.items() if k in job.get("kwonly", [])}
                pos = [v for k, v in params.items() if k not in kw]
                result = obj(*pos, **kw)
    except Exception as exc:
        raised = type(exc).__name__
    out["ran"] = True
    out["outcome"] = ("raised " + raised) if raised else ("returned %r" % (result,))
    env = dict(base)
    env.update(params)
    env["result"] = result
    if selfobj is not None:
        env["self"] = selfobj
    # exceptional postconditions: raised iff cond
    for exc, expr in job.get("raises", []):
        try:
            cond = bool(evaluate(expr, env_old, env_old))
        except Exception:
            continue
        if cond and raised != exc:
            out["violated"].append("must raise %s when %s" % (exc, expr))
        if raised == exc and not cond:
            out["violated"].append("raised %s although not (%s)" % (exc, expr))
    declared = [e for e, _ in job.get("raises", [])]
    if raised and raised not in declared:
        out["violated"].append("unexpected exception %s" % raised)
    if not raised:
        for label, expr in job.get("ensures", []):
            try:
                if not evaluate(expr, env, env_old):
                    out["violated"].append("ensures %s: %s" % (label, expr))
            except Exception as exc:
                out["violated"].append("ensures %s not evaluable natively (%r)" % (label, exc))
    elif selfobj is not None and job.get("raises_unchanged", True) and not qual.endswith("__init__"):
        before = env_old["self"].__dict__
        for f, v in selfobj.__dict__.items():
            if f in before and before[f] != v:
                out["violated"].append("rejection changed self.%s" % f)
    out["confirmed"] = bool(out["violated"])
    print(json.dumps(out, default=str))


if __name__ == "__main__":
    main()
