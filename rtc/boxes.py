"""Finite boxes of constructor tuples (DESIGN.md section 9)."""
import random

COSTS = [(1, 1, 2, 2), (1, 3, 2, 2), (3, 1, 2, 2), (1, 1, .5, 3), (1, 1, 3, .5),
         (2, 1, 5, 0), (1, 2, 0, 0), (1, 1, 0, 0), (1, 1, 0, 1), (1, 1, .1, .1),
         (5, 1, 1, 1), (1, 1, 100, 100), (1, 1, 10, 1), (2, 5, 7, 3), (4, 1, 8, 8), (1, 1, 1, 10),
         # extreme ratios (integers, so the library's arithmetic stays exact): tolerance-based
         # comparisons and "negligible" terms only show up here
         (1, 10 ** 9, 2, 2), (10 ** 6, 1, 3, 3), (1, 1, 300, 300), (1, 2, 1000, 1000),
         # tiny costs (binary fractions: exact in floating point): absolute roundings and epsilons
         (2.0 ** -22, 2.0 ** -22, 2.0 ** -19, 2.0 ** -19)]
TRAJ = ("maximum", "revolve")


def tier_params(tier):
    if tier == "thorough":
        return dict(nmax=40, nmax_h=24, smax=5, dmax=4, pmax=9, bmax=4, ncost=len(COSTS),
                    passes=3, nmax_ms=40)
    return dict(nmax=14, nmax_h=16, smax=4, dmax=3, pmax=6, bmax=3, ncost=len(COSTS),
                passes=3, nmax_ms=14)


def basic_specs(tier):
    import sys
    p = tier_params(tier)
    # finalisation later than the first Forward of the sys.maxsize-stepping schedules
    for k in (1, 2):
        yield ("SingleMemory", (), (), k * sys.maxsize + 7)
        yield ("NoneSchedule", (), (), k * sys.maxsize + 7)
    for N in range(1, p["nmax"] + 1):
        yield ("SingleMemory", (), (), N)
        yield ("SingleDisk", (), (("move_data", False),), N)
        yield ("SingleDisk", (), (("move_data", True),), N)
        yield ("NoneSchedule", (), (), N)


def multistage_specs(tier, splits="all"):
    p = tier_params(tier)
    for n in range(1, p["nmax_ms"] + 1):
        hi = n + 1
        for sr in range(0, hi + 1):
            for sd in range(0, hi + 1):
                if n > 1 and sr + sd < 1:
                    continue
                if splits == "thin" and tier == "thorough" and n > 20 and (sr + sd) > 8 \
                        and sr not in (0, 1, 2) and sd not in (0, 1, 2):
                    continue
                for tr in TRAJ:
                    yield ("Multistage", (n, sr, sd), (("trajectory", tr),), n)


def mixed_specs(tier):
    p = tier_params(tier)
    for n in range(1, p["nmax"] + 1):
        for s in range(min(1, n - 1), n + 2):
            for st in ("RAM", "DISK"):
                yield ("Mixed", (n, s), (("storage", st),), n)


def twolevel_specs(tier):
    p = tier_params(tier)
    for N in range(1, p["nmax"] + 1):
        for period in range(1, p["pmax"] + 1):
            for b in range(0, p["bmax"] + 1):
                for st in ("RAM", "DISK"):
                    for tr in TRAJ:
                        yield ("TwoLevel", (period, b),
                               (("binomial_storage", st), ("binomial_trajectory", tr)), N)


def revolve_specs(tier, classes=("Revolve", "DiskRevolve", "PeriodicDiskRevolve", "HRevolve"),
                  costs=None):
    p = tier_params(tier)
    costs = COSTS if costs is None else costs
    for c in costs:
        for cls in classes:
            if cls == "HRevolve":
                for n in range(1, p["nmax_h"] + 1):
                    for s in range(1, min(p["smax"], 3 if tier == "quick" else 4) + 1):
                        for d in range(0, p["dmax"] + 1):
                            yield ("HRevolve", (n, s, d) + tuple(c), (), n)
            else:
                for n in range(1, p["nmax"] + 1):
                    for s in range(1, p["smax"] + 1):
                        yield (cls, (n, s) + tuple(c), (), n)


def stream_specs(tier):
    yield from basic_specs(tier)
    yield from multistage_specs(tier, splits="thin")
    yield from mixed_specs(tier)
    yield from twolevel_specs(tier)
    yield from revolve_specs(tier)


def deep_specs():
    """A few hundred configurations far outside the exhaustive boxes (thorough tier, and the quick tier
    when the source of the package differs from the reference tree): sizes just beyond powers of two
    and other thresholds a "fast path", a bounded cache or a fixed-size table would use (257, 513,
    1025, 2200), long periods, many units.  Not exhaustive in any sense; one adjoint pass is run."""
    for N in (257, 300, 1025, 2500):
        yield ("SingleMemory", (), (), N)
        yield ("SingleDisk", (), (("move_data", False),), N)
        yield ("SingleDisk", (), (("move_data", True),), N)
    for n in (65, 130, 257, 300, 520, 1030, 1100, 2200):
        for (sr, sd) in ((0, 1), (0, 2), (0, 3), (5, 0), (2, 3)):
            for tr in TRAJ:
                yield ("Multistage", (n, sr, sd), (("trajectory", tr),), n)
    for n in (65, 130, 257, 520, 600):
        for s in (1, 2, 3, 17):
            yield ("Mixed", (n, s), (("storage", "RAM" if s % 2 else "DISK"),), n)
    for (period, N) in ((16, 40), (32, 100), (49, 50), (49, 99), (64, 130), (100, 257), (300, 601),
                        (504, 504), (543, 600), (660, 1000), (10, 300), (3, 260)):
        for b in (1, 2, 3):
            for st in ("RAM", "DISK"):
                yield ("TwoLevel", (period, b), (("binomial_storage", st), ("binomial_trajectory", TRAJ[b % 2])), N)
    for c in ((1, 1, 2, 2), (1, 1, 10, 9), (1, 3, 60, 5), (.3, 1, 10, 8)):
        for n in (35, 60, 120, 260):
            for s in (1, 2, 3):
                for cls in ("Revolve", "DiskRevolve", "PeriodicDiskRevolve"):
                    yield (cls, (n, s) + tuple(c), (), n)
        for (n, s, d) in ((34, 1, 10), (35, 1, 4), (60, 2, 7), (130, 3, 3), (260, 2, 5)):
            yield ("HRevolve", (n, s, d) + tuple(c), (), n)
    yield ("HRevolve", (520, 2, 3, 1, 1, 2, 2), (), 520)
    yield ("Revolve", (120, 1, 1000, 1000, 2, 2), (), 120)
    # operation lists of several thousand entries (anything windowed or chunked in the iterator)
    yield ("Revolve", (1000, 4, 1, 1, 2, 2), (), 1000)
    yield ("HRevolve", (500, 2, 4, 1, 1, 2, 2), (), 500)
    yield ("DiskRevolve", (600, 2, 1, 1, 2, 2), (), 600)
    yield ("PeriodicDiskRevolve", (600, 2, 1, 1, 2, 2), (), 600)
    yield ("HRevolve", (300, 1, 0, 1, 1, 2, 2), (), 300)


def seeded_specs(seed, count, nmax=400):
    """Seeded samples beyond the exhaustive box (thorough tier)."""
    rng = random.Random(seed)
    for _ in range(count):
        kind = rng.choice(["Multistage", "Mixed", "TwoLevel", "Revolve", "DiskRevolve",
                           "PeriodicDiskRevolve", "HRevolve", "SingleDisk"])
        n = rng.randint(15, nmax)
        if kind == "Multistage":
            sr, sd = rng.randint(0, 12), rng.randint(0, 12)
            if sr + sd == 0:
                sd = 1
            yield ("Multistage", (n, sr, sd), (("trajectory", rng.choice(TRAJ)),), n)
        elif kind == "Mixed":
            n = min(n, 150)
            yield ("Mixed", (n, rng.randint(1, 15)), (("storage", rng.choice(["RAM", "DISK"])),), n)
        elif kind == "TwoLevel":
            yield ("TwoLevel", (rng.randint(1, 40), rng.randint(0, 8)),
                   (("binomial_storage", rng.choice(["RAM", "DISK"])),
                    ("binomial_trajectory", rng.choice(TRAJ))), n)
        elif kind == "SingleDisk":
            yield ("SingleDisk", (), (("move_data", rng.random() < .5),), n)
        else:
            n = min(n, 60)
            c = (rng.choice([1, 2, 3, .5, 1.5]), rng.choice([1, 2, 3, .5, 1.5]),
                 rng.choice([0, .25, 1, 2, 7, 30]), rng.choice([0, .25, 1, 2, 7, 30]))
            if kind == "HRevolve":
                n = min(n, 30)
                yield ("HRevolve", (n, rng.randint(1, 4), rng.randint(0, 4)) + c, (), n)
            else:
                yield (kind, (n, rng.randint(1, 5)) + c, (), n)
