"""Reference executor (DESIGN.md section 5), concrete back end.

A literal solver: it carries out an action stream and records, per property id,
every clause of the section-5 table that an action breaks.  It is derived from
the property statements, the action docstrings and the suite's own model; it
never looks inside a schedule except through the public API
(n, r, max_n, is_exhausted, finalize).

Runs under /venv/bin/python (the interpreter of the test-suite).
"""
import numbers

from checkpoint_schedules.schedule import (
    Forward, Reverse, Copy, Move, EndForward, EndReverse, StorageType)

RAM, DISK, WORK, NONE = (StorageType.RAM, StorageType.DISK, StorageType.WORK,
                         StorageType.NONE)
INF = float("inf")
ICS, DEPS = "ICS", "DEPS"


def _is_int(x):
    return isinstance(x, numbers.Integral) and not isinstance(x, bool)


def _is_bool(x):
    # numpy.bool_ is accepted (the tabulated path may produce numpy scalars)
    return isinstance(x, bool) or type(x).__name__ in ("bool_", "bool")


def akey(a):
    """Value identity of an action that does not rely on __eq__."""
    return (type(a).__name__,) + tuple(
        (x.name if isinstance(x, StorageType) else
         (int(x) if _is_int(x) else x)) for x in a.args)


class Executor:
    """State of the literal solver.

    budgets: dict {RAM: int|INF|callable(executor)->int, DISK: ...}
    single_memory: SingleMemoryStorageSchedule exemption of C12
    passes_allowed: 0, 1 or INF (documented per class, C09)
    """

    def __init__(self, N, budgets, *, single_memory=False, passes_allowed=1,
                 offline=True):
        self.N = N                      # true number of steps
        self.known = offline            # does the schedule know N?
        self.budgets = budgets
        self.single_memory = single_memory
        self.passes_allowed = passes_allowed
        self.phase = "FWD"
        self.fwd = 0                    # None = undefined
        self.adj = 0
        self.work_ics = False
        self.work_deps = None           # interval (lo, hi) of steps whose adjoint dependencies are in WORK
        self.store = {RAM: {}, DISK: {}}
        self.S_EF = None
        self.passes = 0
        self.end_forward_seen = 0
        self.done = False               # after the last permitted EndReverse
        self.viol = []                  # (property, clause, detail)
        self.index = -1
        # cost accounting (C05-C07, C13, C19)
        self.fwd_steps = 0
        self.rev_steps = 0
        self.disk_writes = 0
        self.disk_loads = 0
        self.ram_writes = 0
        self.ram_loads = 0
        self.max_ram = 0
        self.max_disk = 0
        self.fwd_writes = 0             # Forward actions writing to RAM/DISK so far
        self.forwards_emitted = 0
        self.finalize_request = None    # set when the client must call finalize(N)

    # -- helpers ---------------------------------------------------------
    def v(self, prop, clause, detail=""):
        self.viol.append((prop, clause, "action[%d] %s" % (self.index, detail)))

    @property
    def e(self):
        return self.N - self.adj

    def budget(self, st):
        b = self.budgets[st]
        return b(self) if callable(b) else b

    # -- transitions -----------------------------------------------------
    def apply(self, a):
        self.index += 1
        if self.done:
            self.v("C02", "nothing_after_last_EndReverse", repr(akey(a)))
            self.v("C09", "nothing_after_last_EndReverse", repr(akey(a)))
        if isinstance(a, Forward):
            self._forward(a)
        elif isinstance(a, Reverse):
            self._reverse(a)
        elif isinstance(a, (Copy, Move)):
            self._load(a, isinstance(a, Move))
        elif isinstance(a, EndForward):
            self._end_forward(a)
        elif isinstance(a, EndReverse):
            self._end_reverse(a)
        else:
            self.v("C18", "unknown_action_type", repr(a))
        # budgets after every action (C03)
        nr, nd = len(self.store[RAM]), len(self.store[DISK])
        self.max_ram = max(self.max_ram, nr)
        self.max_disk = max(self.max_disk, nd)
        if nr > self.budget(RAM):
            self.v("C03", "ram_budget", "held=%d budget=%s" % (nr, self.budget(RAM)))
        if nd > self.budget(DISK):
            self.v("C03", "disk_budget", "held=%d budget=%s" % (nd, self.budget(DISK)))
        if not self.single_memory and self.work_deps is not None and \
                self.work_deps[1] - self.work_deps[0] > 1:
            self.v("C12", "work_deps_at_most_one_step", "deps=[%d,%d)" % self.work_deps)

    def _forward(self, a):
        n0, n1, wi, wa, st = a.args
        ok = True
        if not (_is_int(n0) and _is_int(n1)):
            self.v("C18", "forward_integral", repr(a.args)); ok = False
        elif not (0 <= n0 < n1):
            self.v("C18", "forward_0<=n0<n1", repr(a.args)); ok = False
        if not (_is_bool(wi) and _is_bool(wa)):
            self.v("C18", "forward_flags_bool", repr(a.args))
        if not isinstance(st, StorageType):
            self.v("C18", "forward_storage_type", repr(a.args)); ok = False
        if not ok:
            return
        if st in (RAM, DISK) and not (wi or wa):
            self.v("C18", "forward_ram_disk_only_if_written", repr(a.args))
        if st in (RAM, DISK) and wi and wa:
            self.v("C03", "checkpoint_never_both_kinds", repr(a.args))
            self.v("C18", "checkpoint_never_both_kinds", repr(a.args))
        if st is NONE and (wi or wa):
            self.v("C18", "forward_none_only_if_nothing_written", repr(a.args))
        if self.fwd is None or self.fwd != n0:
            self.v("C01", "forward_starts_at_forward_state",
                   "n0=%d fwd=%s" % (n0, self.fwd))
        if self.known:
            if n1 > self.N:
                self.v("C12", "forward_beyond_last_step", "n1=%d N=%d" % (n1, self.N))
            elif n1 > self.e:
                self.v("C12", "forward_beyond_adjoint_position",
                       "n1=%d e=%d" % (n1, self.e))
        if self.phase == "FWD" and self.end_forward_seen == 0 and self.fwd is not None \
                and self.fwd >= self.N and self.known:
            self.v("C02", "forward_after_all_steps_taken", repr(a.args))
        n1c = min(n1, self.N)
        if st is WORK and wa and not self.single_memory and self.known:
            if not (n1 == n0 + 1 and n1 == self.e):
                self.v("C12", "work_adj_deps_only_for_step_before_adjoint",
                       "n0=%d n1=%d e=%d" % (n0, n1, self.e))
        self.fwd_steps += max(0, n1c - n0)
        self.forwards_emitted += 1
        self.fwd = n1c
        self.work_ics = False
        if st is WORK and wa and n1c > n0:
            if self.single_memory and self.work_deps is not None and self.work_deps[1] == n0:
                # SingleMemoryStorageSchedule keeps the dependencies of all steps (C12 exemption)
                self.work_deps = (self.work_deps[0], n1c)
            else:
                self.work_deps = (n0, n1c)
        else:
            self.work_deps = None
        if st in (RAM, DISK):
            if n0 in self.store[st]:
                self.v("C01", "no_overwrite", "step=%d storage=%s" % (n0, st.name))
            self.store[st][n0] = (ICS if wi else DEPS, n0, n1c)
            self.fwd_writes += 1
            if st is DISK:
                self.disk_writes += 1
            else:
                self.ram_writes += 1
        if not self.known and n1 >= self.N:
            self.finalize_request = self.N

    def finalized(self):
        """Called by the driver once the client has called finalize(N)."""
        self.known = True
        self.finalize_request = None

    def _reverse(self, a):
        n1, n0, c = a.args
        if not (_is_int(n0) and _is_int(n1)):
            self.v("C18", "reverse_integral", repr(a.args)); return
        if not (n1 > n0 >= 0):
            self.v("C18", "reverse_n1>n0>=0", repr(a.args)); return
        if not _is_bool(c):
            self.v("C18", "reverse_flag_bool", repr(a.args))
        if self.phase != "REV":
            self.v("C02", "reverse_before_EndForward", repr(a.args))
        if n1 != self.e:
            self.v("C02", "reverse_starts_at_adjoint_position",
                   "n1=%d e=%d" % (n1, self.e))
        if self.work_deps is None or not (self.work_deps[0] <= n0 and n1 <= self.work_deps[1]):
            self.v("C01", "reverse_deps_in_work", "needs [%d,%d) work holds %s" % (n0, n1, self.work_deps))
        self.adj += n1 - n0
        self.rev_steps += n1 - n0
        if c:
            self.work_deps = None           # interval (lo, hi) of steps whose adjoint dependencies are in WORK

    def _load(self, a, move):
        n, f, t = a.args
        if not _is_int(n):
            self.v("C18", "copy_move_integral", repr(a.args)); return
        if f not in (RAM, DISK):
            self.v("C18", "copy_move_source_ram_or_disk", repr(a.args)); return
        if not isinstance(t, StorageType):
            self.v("C18", "copy_move_destination_storage_type", repr(a.args)); return
        if self.phase != "REV":
            self.v("C02", "copy_move_before_EndForward", repr(a.args))
        if n not in self.store[f]:
            self.v("C01", "checkpoint_present", "step=%d storage=%s" % (n, f.name))
            return
        kind, lo, hi = self.store[f][n]
        if move:
            del self.store[f][n]
        if not (n < self.e):
            self.v("C01", "checkpoint_before_adjoint_position", "n=%d e=%d" % (n, self.e))
        if f is DISK:
            self.disk_loads += 1
        else:
            self.ram_loads += 1
        if t is WORK:
            if self.work_ics:
                self.v("C12", "load_while_unused_restart_data_in_work", repr(a.args))
            if self.work_deps is not None:
                self.v("C12", "load_while_adj_deps_in_work", repr(a.args))
            if kind == ICS:
                if hi < self.e:
                    self.v("C01", "restart_checkpoint_covers_steps_to_recompute",
                           "cover=[%d,%d) e=%d" % (lo, hi, self.e))
                self.fwd = n
                self.work_ics = True
            else:
                self.fwd = None
                self.work_deps = (lo, hi) if hi > lo else None
        elif t in (RAM, DISK):
            if n in self.store[t]:
                self.v("C01", "no_overwrite", "step=%d storage=%s" % (n, t.name))
            self.store[t][n] = (kind, lo, hi)
            if t is DISK:
                self.disk_writes += 1
            else:
                self.ram_writes += 1

    def _end_forward(self, a):
        if a.args != ():
            self.v("C18", "end_forward_no_args", repr(a.args))
        self.end_forward_seen += 1
        if self.end_forward_seen > 1 or self.phase != "FWD":
            self.v("C02", "EndForward_exactly_once", "count=%d" % self.end_forward_seen)
        if self.fwd != self.N:
            self.v("C02", "EndForward_when_forward_complete",
                   "fwd=%s N=%d" % (self.fwd, self.N))
        self.phase = "REV"
        self.S_EF = {k: dict(v) for k, v in self.store.items()}
        if self.passes_allowed == 0:
            self.done = True

    def _end_reverse(self, a):
        if a.args != ():
            self.v("C18", "end_reverse_no_args", repr(a.args))
        if self.phase != "REV":
            self.v("C02", "EndReverse_before_EndForward", "")
        if self.adj != self.N:
            self.v("C02", "EndReverse_when_step0_reversed", "adj=%d N=%d" % (self.adj, self.N))
        self.passes += 1
        if self.passes >= self.passes_allowed:
            self.done = True
            left = {k.name: sorted(v) for k, v in self.store.items() if v}
            if left:
                self.v("C04", "storage_empty_at_final_EndReverse", "left=%s" % left)
        else:
            if self.store != self.S_EF:
                self.v("C04", "storage_at_EndReverse_equals_storage_at_EndForward",
                       "now=%s then=%s" % (
                           {k.name: sorted(v) for k, v in self.store.items()},
                           {k.name: sorted(v) for k, v in self.S_EF.items()}))
            self.adj = 0

    # -- observer checks (C08) ------------------------------------------
    def check_counters(self, sched, a):
        """After action `a`: n, r, max_n report where the execution is."""
        if self.fwd is not None and sched.n != self.fwd:
            self.v("C08", "n_is_forward_position", "n=%s fwd=%s" % (sched.n, self.fwd))
        if isinstance(a, EndReverse):
            more = not self.done
            if more and sched.r != 0:
                self.v("C08", "r_reset_at_EndReverse_iff_more_passes",
                       "r=%s more=%s" % (sched.r, more))
            if (not more) and sched.r != self.N:
                self.v("C08", "r_reset_at_EndReverse_iff_more_passes",
                       "r=%s more=%s" % (sched.r, more))
        elif sched.r != self.adj:
            self.v("C08", "r_is_steps_reversed", "r=%s adj=%s" % (sched.r, self.adj))
        mn = sched.max_n
        if self.known:
            if mn != self.N:
                self.v("C08", "max_n_is_true_step_count", "max_n=%s N=%d" % (mn, self.N))
        elif mn is not None:
            self.v("C08", "max_n_unknown_before_finalize", "max_n=%s" % (mn,))
