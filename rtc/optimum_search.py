"""DESIGN.md 6.5: validation of the spec functions themselves (bounded).

A Dijkstra search over the states of the section-5 executor - every executable action sequence,
not only those a schedule class would emit - finds the true minimum of forward steps (resp. of
the uf/ub/wd/rd-weighted cost) for small n and must agree with the recurrences used as oracles:
n + gw_extra(n, s) (binomial: units hold restart checkpoints only), mixed_opt(n, s) (units hold a
restart checkpoint or one step's adjoint dependencies), and the H-Revolve / Disk-Revolve /
Revolve recurrences + n*uf (two storage levels with capacities and transfer costs).
This is the only place where "no executable schedule does better" is examined directly; beyond
the bound it rests on the cited theorems.
"""
import heapq
from fractions import Fraction


def search(n, caps, kinds, cost):
    """Minimal cost to complete one adjoint pass of n steps.
    caps: {"RAM": c, "DISK": c}; kinds: allowed checkpoint kinds ("ICS", "DEPS");
    cost: dict(uf, ub, w={"RAM":..,"DISK":..}, r={...}).
    State: (p, work_ics, e, deps, ram, disk): forward position p (None = undefined), loaded restart
    data not yet used, adjoint position e, deps = adjoint dependencies of step e-1 in WORK,
    ram/disk = frozenset of (step, kind)."""
    uf, ub = cost["uf"], cost["ub"]
    start = (0, False, n, False, frozenset(), frozenset())
    dist = {start: 0}
    heap = [(0, 0, start)]
    tick = 1
    while heap:
        d, _, st = heapq.heappop(heap)
        if dist.get(st, None) != d:
            continue
        p, wics, e, deps, ram, disk = st
        if e == 0:
            return d
        succ = []
        stores = {"RAM": ram, "DISK": disk}
        # Reverse one step
        if deps:
            succ.append((ub, (p, wics, e - 1, False, ram, disk)))
        # Forward p -> q (q <= e), optionally writing a checkpoint of the state at p
        if p is not None and not deps:
            for q in range(p + 1, e + 1):
                c = (q - p) * uf
                # plain advance; if q == p + 1 == e the dependencies may be kept in WORK
                succ.append((c, (q, False, e, False, ram, disk)))
                if q == p + 1 and q == e:
                    succ.append((c, (q, False, e, True, ram, disk)))
                for name in ("RAM", "DISK"):
                    cur = stores[name]
                    if len(cur) >= caps[name]:
                        continue
                    if "ICS" in kinds and (p, "ICS") not in cur and not any(x[0] == p for x in cur):
                        new = cur | {(p, "ICS")}
                        ns = (new, disk) if name == "RAM" else (ram, new)
                        succ.append((c + cost["w"][name], (q, False, e, False) + ns))
                        if q == p + 1 and q == e:
                            succ.append((c + cost["w"][name], (q, False, e, True) + ns))
                    if "DEPS" in kinds and q == p + 1 and not any(x[0] == p for x in cur):
                        new = cur | {(p, "DEPS")}
                        ns = (new, disk) if name == "RAM" else (ram, new)
                        succ.append((c + cost["w"][name], (q, False, e, False) + ns))
        # loads (Copy keeps, Move deletes); only with empty WORK
        if not deps and not wics:
            for name in ("RAM", "DISK"):
                cur = stores[name]
                for (x, kind) in cur:
                    if x >= e:
                        continue
                    rest = cur - {(x, kind)}
                    for keep in (True, False):
                        newset = cur if keep else rest
                        ns = (newset, disk) if name == "RAM" else (ram, newset)
                        if kind == "ICS":
                            succ.append((cost["r"][name], (x, True, e, False) + ns))
                        elif x == e - 1:
                            succ.append((cost["r"][name], (None, False, e, True) + ns))
            # discarding a checkpoint is free (Move to NONE)
            for name in ("RAM", "DISK"):
                cur = stores[name]
                for item in cur:
                    if item[0] >= e:
                        ns = (cur - {item}, disk) if name == "RAM" else (ram, cur - {item})
                        succ.append((0, (p, wics, e, deps) + ns))
        for c, ns in succ:
            nd = d + c
            if ns not in dist or nd < dist[ns]:
                dist[ns] = nd
                heapq.heappush(heap, (nd, tick, ns))
                tick += 1
    return None


def validate(nmax_steps=6, nmax_cost=4):
    """-> (evaluations, violations[list of (what, input, detail)])"""
    from contracts import specs
    viol = []
    ev = 0
    one = {"uf": 1, "ub": 0, "w": {"RAM": 0, "DISK": 0}, "r": {"RAM": 0, "DISK": 0}}
    for n in range(1, nmax_steps + 1):
        for s in range(min(1, n - 1), n + 1):
            ev += 1
            got = search(n, {"RAM": s, "DISK": 0}, ("ICS",), one)
            want = n + (specs.gw_extra(n, s) if n > 1 else 0)
            if got != want:
                viol.append(("gw_extra_is_the_true_optimum", ("binomial", n, s), "search=%s recurrence=%s" % (got, want)))
            got = search(n, {"RAM": s, "DISK": 0}, ("ICS", "DEPS"), one)
            want = specs.mixed_opt(n, s)
            if got != want:
                viol.append(("mixed_opt_is_the_true_optimum", ("mixed", n, s), "search=%s recurrence=%s" % (got, want)))
    for (uf, ub, wd, rd) in ((1, 1, 2, 2), (3, 1, 2, 2), (1, 2, Fraction(1, 2), 3), (2, 1, 5, 0), (1, 1, 0, 0)):
        cost = {"uf": Fraction(uf), "ub": Fraction(ub), "w": {"RAM": 0, "DISK": Fraction(wd)},
                "r": {"RAM": 0, "DISK": Fraction(rd)}}
        tab = specs.CostTables(uf, ub, wd, rd)
        for n in range(1, nmax_cost + 1):
            for s in range(1, 3):
                ev += 1
                got = search(n, {"RAM": s, "DISK": 0}, ("ICS",), cost)
                if got != tab.stream_revolve(n, s):
                    viol.append(("revolve_recurrence_is_the_true_optimum", ("revolve", n, s, uf, ub, wd, rd),
                                 "search=%s recurrence=%s" % (got, tab.stream_revolve(n, s))))
                for dcap in range(0, 3):
                    ev += 1
                    got = search(n, {"RAM": s, "DISK": dcap}, ("ICS",), cost)
                    want = tab.stream_hrevolve(n, s, dcap)
                    if got != want:
                        viol.append(("hrevolve_recurrence_is_the_true_optimum",
                                     ("hrevolve", n, s, dcap, uf, ub, wd, rd), "search=%s recurrence=%s" % (got, want)))
    return ev, viol
