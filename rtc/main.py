"""Entry point of the bounded layer:  /venv/bin/python -m rtc.main <Cxx> --tier .. --seed .. --out file

Also:  -m rtc.main replay <spec-json>   (re-runs one constructor tuple under the monitor)
"""
import argparse
import json
import sys
import time

from . import props


def merge(a, b):
    if a is None:
        return b
    out = dict(a)
    out["evaluations"] += b["evaluations"]
    out["distinct_nontrivial"] += b["distinct_nontrivial"]
    out["samples"] = a["samples"] + b["samples"]
    out["violations"] = a["violations"] + b["violations"]
    out["clauses"] = a["clauses"] + b["clauses"]
    out["box"] = a["box"] + " || " + b["box"]
    out["rule"] = a["rule"] + " || " + b["rule"]
    out["exhaustive"] = a["exhaustive"] and b["exhaustive"]
    return out


STREAM_CLAUSES = {
    "C01": ["stream_raises_mid_way", "forward_starts_at_forward_state", "checkpoint_present",
            "restart_checkpoint_covers_steps_to_recompute", "checkpoint_before_adjoint_position",
            "reverse_deps_in_work", "no_overwrite"],
    "C02": ["EndForward_exactly_once", "EndForward_when_forward_complete",
            "reverse_starts_at_adjoint_position", "reverse_before_EndForward",
            "copy_move_before_EndForward", "EndReverse_when_step0_reversed",
            "nothing_after_last_EndReverse", "stream_ended_early", "no_complete_adjoint_pass"],
    "C03": ["ram_budget", "disk_budget", "checkpoint_never_both_kinds"],
    "C04": ["storage_empty_at_final_EndReverse",
            "storage_at_EndReverse_equals_storage_at_EndForward"],
    "C08": ["n_is_forward_position", "r_is_steps_reversed", "r_reset_at_EndReverse_iff_more_passes",
            "max_n_is_true_step_count", "max_n_unknown_before_finalize"],
    "C09": ["is_running_false_before_first_action", "is_running_true_after_first_action",
            "is_exhausted_iff_final_action_emitted", "StopIteration_after_final_action",
            "further_pass_is_exact_repeat", "further_pass_is_executable_repeat",
            "nothing_after_last_EndReverse", "stream_ended_early"],
    "C12": ["work_deps_at_most_one_step", "load_while_unused_restart_data_in_work",
            "load_while_adj_deps_in_work", "work_adj_deps_only_for_step_before_adjoint",
            "forward_beyond_adjoint_position", "forward_beyond_last_step"],
    "C18": ["forward_integral", "forward_0<=n0<n1", "forward_flags_bool", "forward_storage_type",
            "forward_ram_disk_only_if_written", "forward_none_only_if_nothing_written",
            "reverse_n1>n0>=0", "copy_move_source_ram_or_disk",
            "copy_move_destination_storage_type", "repr_evaluates_back"],
    "C17": ["valid_parameters_yield_complete_stream"],
    "C10": ["finalize_at_true_end_accepted"],
}


def run(prop, tier, seed):
    res = None
    if prop in STREAM_CLAUSES:
        sb = props.stream_box(tier, seed, [prop])[prop]
        sb["clauses"] = list(STREAM_CLAUSES[prop])
        res = sb
    fn = {"C05": props.c05, "C06": props.c06, "C07": props.c07, "C10": props.c10, "C11": props.c11,
          "C13": props.c13, "C14": props.c14, "C15": props.c15, "C16": props.c16, "C17": props.c17,
          "C18": props.c18_values, "C19": props.c19}.get(prop)
    if fn is not None:
        res = merge(res, fn(tier, seed))
    if res is None:
        raise SystemExit("no bounded layer for " + prop)
    return res


def replay(spec, passes=3):
    from .driver import drive
    spec = (spec[0], tuple(spec[1]), tuple(tuple(x) for x in spec[2]), spec[3])
    r = drive(spec, passes=passes, keep_stream=True)
    seen = {}
    for p, c, d in r["viol"]:
        seen.setdefault((p, c), d)
    return {"spec": list(spec), "error": r["error"], "n_actions": r.get("n_actions"),
            "stats": r["stats"], "violations": [[p, c, d] for (p, c), d in seen.items()],
            "stream_head": r["stream"][:40]}


def fields(specs, passes=2):
    """Initial object fields + CPython stream for the engine cross-check."""
    from .driver import build, drive
    from checkpoint_schedules.schedule import StorageType
    out = []
    for spec in specs:
        spec = (spec[0], tuple(spec[1]), tuple(tuple(x) for x in spec[2]), spec[3])
        obj = build(spec)
        flds = {}
        for k, v in obj.__dict__.items():
            if isinstance(v, StorageType):
                flds[k] = {"storage": v.name}
            elif isinstance(v, tuple) and all(isinstance(x, StorageType) for x in v):
                flds[k] = {"storage_tuple": [x.name for x in v]}
            elif isinstance(v, str):
                flds[k] = {"str": v}
            elif v is None or isinstance(v, (bool, int)):
                flds[k] = v
            elif k == "_schedule" and isinstance(v, list):
                flds[k] = {"ops": [[op.type, op.index] for op in v]}
        r = drive(spec, passes=passes, keep_stream=True, observe=False)
        out.append({"fields": flds, "stream": r["stream"], "error": r["error"]})
    return out


def main(argv=None):
    ap = argparse.ArgumentParser()
    ap.add_argument("prop")
    ap.add_argument("--tier", default="quick")
    ap.add_argument("--seed", type=int, default=0)
    ap.add_argument("--out", default=None)
    ap.add_argument("--spec", default=None)
    a = ap.parse_args(argv)
    t0 = time.time()
    if a.prop == "fields":
        out = fields(json.loads(a.spec), passes=max(1, a.seed))
    elif a.prop == "replay":
        out = replay(json.loads(a.spec))
    else:
        out = run(a.prop, a.tier, a.seed)
        out["wall_s"] = round(time.time() - t0, 2)
    s = json.dumps(out, default=str)
    if a.out:
        with open(a.out, "w") as f:
            f.write(s)
    else:
        print(s)


if __name__ == "__main__":
    main()
