"""Orchestrator: VC layer (pyvc, python3-vt) + bounded layer (rtc, /venv/bin/python),
known findings, replay files, evidence, exit codes (DESIGN.md sections 10, 11)."""
import hashlib
import json
import os
import subprocess
import sys
import time

VERIF = os.path.dirname(os.path.dirname(os.path.abspath(__file__)))
REPO = os.environ.get("VERIF_REPO", "/repo")
VENV_PY = "/venv/bin/python"
WORK = os.path.join(VERIF, ".work")
ALL = ["C%02d" % i for i in range(1, 20)]

ASSUMPTIONS_COMMON = [
    "A1 Python ints are mathematical integers (exact); // and % encoded with floor semantics",
    "A3 generator = coroutine with cut points at loop heads and yields; between two next() calls "
    "only finalize() (through its proved contract) can change schedule state",
    "A4 implicit exceptions (index, key, None in arithmetic, assert) are obligations",
    "A7 CPython generator protocol: an exhausted generator keeps raising StopIteration",
    "pyvc (the VC generator of /verif/pyvc) and the sidecar contracts are trusted; z3 5.1.0 / cvc5",
    "bounded clauses are exhaustive only inside their stated box and are never counted as proved",
]


def load_manifest_entry(prop):
    with open(os.path.join(VERIF, "MANIFEST.json")) as f:
        m = json.load(f)
    for c in m["checks"]:
        if c["property_id"] == prop:
            return c
    return None


def run_rtc(prop, tier, seed):
    os.makedirs(WORK, exist_ok=True)
    out = os.path.join(WORK, "rtc_%s_%s_%d.json" % (prop, tier, os.getpid()))
    env = dict(os.environ)
    env["PYTHONPATH"] = REPO + os.pathsep + VERIF
    env["PYTHONDONTWRITEBYTECODE"] = "1"
    p = subprocess.run([VENV_PY, "-m", "rtc.main", prop, "--tier", tier, "--seed", str(seed),
                        "--out", out], cwd=VERIF, env=env, capture_output=True, text=True)
    if p.returncode != 0 or not os.path.exists(out):
        return {"error": "bounded layer crashed (exit %s): %s" % (p.returncode, p.stderr[-2000:])}
    with open(out) as f:
        res = json.load(f)
    os.unlink(out)
    return res


def run_vc(prop, tier, seed):
    try:
        from pyvc import api
    except Exception as exc:  # engine not importable: checker broken
        return {"engine_error": "pyvc import failed: %r" % (exc,), "obligations": [], "functions": []}
    return api.run_property(prop, tier=tier, seed=seed, repo=REPO)


def load_known():
    p = os.path.join(VERIF, "known_findings.json")
    if not os.path.exists(p):
        return {"findings": [], "fixed": []}
    with open(p) as f:
        return json.load(f)


def known_match(known, prop, clause, cls, spec):
    for k in known.get("findings", []):
        if k["property"] != prop:
            continue
        if k.get("clause") not in (None, clause):
            continue
        if k.get("class") not in (None, cls):
            continue
        kw = k.get("kwargs")
        if kw and spec is not None:
            have = {a: b for a, b in (spec[2] or [])}
            if any(have.get(a) != b for a, b in kw.items()):
                continue
        return k
    return None


def write_replay(prop, tag, payload):
    os.makedirs(os.path.join(VERIF, "replays"), exist_ok=True)
    h = hashlib.sha1(tag.encode()).hexdigest()[:8]
    safe = "".join(ch if ch.isalnum() or ch in "._-" else "_" for ch in tag)[:80]
    path = os.path.join(VERIF, "replays", "%s-%s-%s.json" % (prop, safe, h))
    payload = dict(payload)
    payload["replay_cmd"] = "%s/check replay %s" % (VERIF, path)
    with open(path, "w") as f:
        json.dump(payload, f, indent=1, default=str)
    return path


CLASS_OF = {"SingleMemoryStorageSchedule": "SingleMemory", "SingleDiskStorageSchedule": "SingleDisk",
            "NoneCheckpointSchedule": "NoneSchedule", "MultistageCheckpointSchedule": "Multistage",
            "MixedCheckpointSchedule": "Mixed", "TwoLevelCheckpointSchedule": "TwoLevel",
            "RevolveCheckpointSchedule": "Revolve", "HRevolve": "HRevolve", "DiskRevolve": "DiskRevolve",
            "PeriodicDiskRevolve": "PeriodicDiskRevolve", "n_advance": "Multistage",
            "_convert_action": "Revolve"}
# the base-class iterator and _convert_action serve all four classes of the family
REVOLVE_FAMILY = ("Revolve", "DiskRevolve", "PeriodicDiskRevolve", "HRevolve")


def load_ledger(key="obligations"):
    p = os.path.join(VERIF, "ledger.json")
    if not os.path.exists(p):
        return {}
    with open(p) as f:
        return json.load(f).get(key, {})


def native_replay(job):
    """Replay a solver counterexample on the real function (rtc/replay_fn.py, /venv/bin/python)."""
    if not job:
        return None
    env = dict(os.environ)
    env["PYTHONPATH"] = REPO + os.pathsep + VERIF
    try:
        p = subprocess.run([VENV_PY, "-m", "rtc.replay_fn"], input=json.dumps(job), cwd=VERIF, env=env,
                           capture_output=True, text=True, timeout=60)
        if p.returncode != 0:
            return {"ran": False, "outcome": "replay crashed: " + p.stderr[-300:], "confirmed": False}
        return json.loads(p.stdout)
    except Exception as exc:
        return {"ran": False, "outcome": "replay error %r" % (exc,), "confirmed": False}


def class_of_function(fn):
    for k, v in CLASS_OF.items():
        if k in fn:
            return v
    return None


def decide(prop, tier, seed, quiet=False, vc=None):
    t0 = time.time()
    entry = load_manifest_entry(prop)
    level = (entry or {}).get("level_claimed", {}).get("category", "other")
    if vc is None:
        vc = run_vc(prop, tier, seed)
    rtc = run_rtc(prop, tier, seed)
    escalated = False
    if tier == "quick" and not rtc.get("violations") and not rtc.get("error"):
        led0 = load_ledger()
        drifted = [o for o in vc.get("obligations", [])
                   if o["status"] == "anchor_error" or
                   (o["status"] in ("unknown", "timeout") and led0.get(o["name"], {}).get("status") != "discharged")]
        changed = []
        ref = load_ledger("code_hashes")
        if ref:
            try:
                from pyvc.source import SourceIndex
                cur = SourceIndex(REPO).code_hashes()
                changed = sorted(m for m in set(ref) | set(cur) if ref.get(m) != cur.get(m))
            except Exception:
                changed = ["<source not readable>"]
        if drifted or changed:
            # the code of the package differs from the reference tree (ledger.json: code_hashes), or a
            # function in scope has changed beyond what the contracts can follow (it left the verified
            # subset, or its anchors moved).  On changed code the bounded layer looks as hard as the
            # thorough tier does (larger boxes, seeded samples, sizes beyond 2**8 .. 2**11) before the
            # check settles; on the reference tree the quick tier stays quick.
            rtc2 = run_rtc(prop, "thorough", seed)
            if rtc2.get("violations") and not rtc2.get("error"):
                rtc = rtc2
                escalated = True
    known = load_known()
    ledger = load_ledger()
    lines = []
    exit_code = 0
    nviol = 0
    known_reported = []

    def worse(code):
        nonlocal exit_code
        if exit_code == 3:
            return
        if code == 3 or code > exit_code or (code == 1 and exit_code == 2):
            exit_code = code if not (exit_code == 1 and code == 2) else exit_code

    if escalated:
        lines.append("NOTE: the package's code differs from the reference tree; the bounded layer was escalated "
                     "to the thorough boxes and found the violations below")
    # ---- engine health
    if vc.get("engine_error"):
        lines.append("CHECKER-BROKEN: %s" % vc["engine_error"])
        worse(3)
    if rtc.get("error"):
        lines.append("CHECKER-BROKEN: %s" % rtc["error"])
        worse(3)

    obls = vc.get("obligations", [])
    n_obl = len(obls)
    discharged = [o for o in obls if o["status"] == "discharged"]
    failed = [o for o in obls if o["status"] == "failed"]
    unknown = [o for o in obls if o["status"] in ("unknown", "timeout")]
    anchor = [o for o in obls if o["status"] == "anchor_error"]
    vacuous = [o for o in obls if o["status"] == "vacuous"]
    # an obligation the ledger records as discharged on the reference tree and that the
    # solvers can no longer discharge has *regressed*: reported as a violation (with the
    # solver's reason), never silently as "undecided"
    regressed = [o for o in unknown if ledger.get(o["name"], {}).get("status") == "discharged"]
    undecided = [o for o in unknown if o not in regressed] + anchor
    if vacuous:
        lines.append("CHECKER-BROKEN: vacuous obligations: %s" % [o["name"] for o in vacuous][:5])
        worse(3)
    # vacuity: a site the reference tree reaches (ledger: some path to it is not refuted there) and
    # that is now proved unreachable although every obligation is discharged.  Sites that are
    # dead code under the contracts on the reference tree as well (e.g. the planner never returns
    # StepType.FORWARD) only get a cover when a path-pruning query times out under load: ignored.
    reach_ref = set(load_ledger("reachable_sites") or [])
    dead = [k for k in vc.get("covers", {}).get("unreachable", [])
            if ("#yield" in k or "#return" in k or k.endswith("#end") or "back_edge" in k)
            and "lemma" not in k and k in reach_ref]
    if dead and not failed and not regressed:
        lines.append("CHECKER-BROKEN: sites proved unreachable although every obligation is discharged "
                     "(vacuous contracts?): %s" % dead[:5])
        worse(3)
    expected = ledger_count(ledger, prop)
    if n_obl == 0 and expected > 0:
        lines.append("CHECKER-BROKEN: zero obligations generated for %s (ledger expects %d)" % (prop, expected))
        worse(3)

    # ---- VC failures: named obligation, counterexample replayed on the real code
    rtc_by_class = {}
    for v in rtc.get("violations", []):
        if v.get("assumption"):
            continue
        cls = v["spec"][0] if v.get("spec") else None
        rtc_by_class.setdefault(cls, []).append(v)
    seen_names = set()
    for o in failed + regressed:
        if o["name"] in seen_names:
            continue
        seen_names.add(o["name"])
        cls = class_of_function(o.get("function") or "")
        k = known_match(known, prop, o["name"], cls, None)
        if k:
            if k not in known_reported:
                known_reported.append(k)
                lines.append("KNOWN-FINDING: property=%s %s" % (prop, k["what"]))
            continue
        nviol += 1
        nat = native_replay(o.get("replay_job"))
        confirmed = bool(nat and nat.get("confirmed"))
        concrete = None
        family = REVOLVE_FAMILY if cls == "Revolve" else (cls,)
        hit = [c for c in family if c in rtc_by_class]
        if not confirmed and hit:
            concrete = rtc_by_class[hit[0]][0]
            confirmed = True
        payload = {"property": prop, "kind": "vc", "obligation": o["name"], "clause": o.get("clause"),
                   "location": o.get("loc"), "function": o.get("function"),
                   "solver_status": o["status"] + (" (discharged on the reference tree, see ledger.json)"
                                                   if o in regressed else ""),
                   "model": o.get("model"), "solver_output": o.get("solver_output"),
                   "native_replay": nat, "replay_job": o.get("replay_job"),
                   "concrete_failing_input": concrete, "spec": (concrete or {}).get("spec"),
                   "detail": (concrete or {}).get("detail")}
        path = write_replay(prop, o["name"], payload)
        suffix = "" if confirmed else " no-failing-input-found"
        lines.append("FAILED-OBLIGATION %s at %s [%s]%s" % (
            o["name"], o.get("loc"), o.get("clause"),
            "" if o not in regressed else " (no longer provable; was discharged on the reference tree)"))
        if nat and nat.get("ran"):
            lines.append("  native replay: %s -> %s" % (nat.get("outcome"), nat.get("violated") or "contract holds on this input"))
        if concrete:
            lines.append("  concrete failing input from the bounded layer: %s: %s" % (concrete.get("spec"), concrete.get("detail")))
        lines.append("VIOLATION property=%s replay=%s%s" % (prop, path, suffix))
        worse(1)
    for o in undecided:
        lines.append("UNDECIDED %s (%s) %s" % (o["name"], o["status"], o.get("note", "")))
        worse(2)

    # ---- bounded violations, grouped by clause and class
    groups = {}
    assumption_failed = {}
    for v in rtc.get("violations", []):
        cls = v["spec"][0] if v.get("spec") else None
        if v.get("assumption"):
            assumption_failed.setdefault((v["clause"], cls), v)
            continue
        groups.setdefault((v["clause"], cls), []).append(v)
    for (clause, cls), v in sorted(assumption_failed.items(), key=str):
        lines.append("UNDECIDED assumed contract %s does not hold on %s (%s): the proofs resting on it do "
                     "not apply to this tree" % (clause, v.get("spec"), v.get("detail")))
        worse(2)
    for (clause, cls), vs in sorted(groups.items(), key=lambda kv: str(kv[0])):
        unknown_vs = []
        for v in vs:
            k = known_match(known, prop, clause, cls, v.get("spec"))
            if k:
                if k not in known_reported:
                    known_reported.append(k)
                    lines.append("KNOWN-FINDING: property=%s %s" % (prop, k["what"]))
            else:
                unknown_vs.append(v)
        if not unknown_vs:
            continue
        nviol += len(unknown_vs)
        payload = {"property": prop, "kind": "bounded", "clause": clause, "class": cls,
                   "count": len(unknown_vs), "spec": unknown_vs[0].get("spec"),
                   "detail": unknown_vs[0].get("detail"),
                   "more": [{"spec": v.get("spec"), "detail": v.get("detail")} for v in unknown_vs[1:6]]}
        path = write_replay(prop, "%s-%s" % (clause, cls), payload)
        lines.append("BOUNDED-CLAUSE-FAILED %s on %s (%d inputs), e.g. %s: %s" % (
            clause, cls, len(unknown_vs), unknown_vs[0].get("spec"), unknown_vs[0].get("detail")))
        lines.append("VIOLATION property=%s replay=%s" % (prop, path))
        worse(1)

    # ---- evidence
    wall = time.time() - t0
    solver_times = [o.get("time_s", 0.0) for o in obls]
    samples = []
    for o in [x for x in discharged if x.get("backend") != "z3-simplify"][:3]:
        samples.append({"obligation": o["name"], "clause": o.get("clause"), "loc": o.get("loc"),
                        "backend": o.get("backend"), "time_s": o.get("time_s")})
    samples += rtc.get("samples", [])[:3]
    if not samples:
        samples = [{"note": "no sample available"}]
    backend_count = {}
    for o in discharged:
        backend_count[o.get("backend", "z3")] = backend_count.get(o.get("backend", "z3"), 0) + 1
    distinct_names = sorted(set(o["name"] for o in obls))
    cov = {
        "obligations": n_obl,
        "discharged": len(discharged),
        "failed": len(failed) + len(regressed),
        "undecided": [o["name"] for o in undecided],
        "distinct_obligation_names": len(distinct_names),
        "checker_cmd": "%s/check %s --tier %s" % (VERIF, prop, tier),
        "trusted_base": ["pyvc VC generator (/verif/pyvc)", "sidecar contracts + ghost executor (/verif/contracts)",
                         "z3 5.1.0 (python3-vt)", "cvc5 1.0.3 CLI (second opinion on z3 unknowns)",
                         "CPython ast module", "induction principle over the naturals (spec-function lemmas)",
                         "reference executor /verif/rtc/executor.py (bounded layer only)"],
        "functions_under_contract": vc.get("functions", []),
        "vc_by_backend": backend_count,
        "solver_time_s": {"sum": round(sum(solver_times), 3),
                          "max": round(max(solver_times), 3) if solver_times else 0.0},
        "obligation_names": distinct_names[:300],
        "bounded_clauses": [{"clause": c, "box": rtc.get("box"), "exhaustive_in_box": rtc.get("exhaustive")}
                            for c in rtc.get("clauses", [])],
        "delegated_to_bounded": vc.get("delegated_to_bounded", []),
        "cross_check": vc.get("cross_check", {}),
        "mutation_selftest": vc.get("mutation_selftest", {}),
        "axiom_model_check": vc.get("axiom_model_check", {}),
        "vacuity_covers": vc.get("covers", {}),
        "evaluations": rtc.get("evaluations", 0),
        "distinct_nontrivial": rtc.get("distinct_nontrivial", 0),
        "rule": rtc.get("rule", ""),
        "exhaustive": False,
        "samples": samples,
        "known_findings_reported": [k["what"] for k in known_reported],
        "explanation": (
            "%d verification conditions (%d distinct obligation names) generated from the current /repo "
            "source by pyvc for this property, %d discharged (unsat) with no bound on n/units/period/"
            "iterations, %d failed, %d undecided. Bounded stand-in (never counted as proved): %d "
            "evaluations of the contracts on the real classes in %s." % (
                n_obl, len(distinct_names), len(discharged), len(failed) + len(regressed), len(undecided),
                rtc.get("evaluations", 0), rtc.get("box", "-"))),
    }
    ev = {"property_id": prop, "tier": tier, "seed": seed, "level": level, "coverage": cov,
          "assumptions": ASSUMPTIONS_COMMON + vc.get("assumptions", []),
          "wall_s": round(wall, 2), "violations": nviol}
    if level == "proof" and (len(discharged) != n_obl or n_obl == 0):
        ev["level"] = "other"      # never report a proof level that this run did not earn
    os.makedirs(os.path.join(VERIF, "evidence"), exist_ok=True)
    with open(os.path.join(VERIF, "evidence", prop + ".json"), "w") as f:
        json.dump(ev, f, indent=1, default=str)
    if not quiet:
        for ln in lines:
            print(ln)
        print("%s tier=%s vc=%d/%d discharged, bounded evaluations=%d, violations=%d, wall=%.1fs, exit=%d" % (
            prop, tier, len(discharged), n_obl, rtc.get("evaluations", 0), nviol, wall, exit_code))
    return exit_code


def ledger_count(ledger, prop):
    return sum(1 for v in ledger.values() if prop in v.get("props", []))


def replay(path):
    with open(path) as f:
        rp = json.load(f)
    print("replay of %s: property=%s kind=%s" % (path, rp.get("property"), rp.get("kind")))
    if rp.get("kind") == "bounded":
        spec = rp.get("spec")
        print("clause:", rp.get("clause"), "\ninput:", spec, "\nrecorded:", rp.get("detail"))
        if spec and spec[0] in ("SingleMemory", "SingleDisk", "NoneSchedule", "Multistage", "Mixed",
                                "TwoLevel", "Revolve", "DiskRevolve", "PeriodicDiskRevolve", "HRevolve"):
            env = dict(os.environ)
            env["PYTHONPATH"] = REPO + os.pathsep + VERIF
            p = subprocess.run([VENV_PY, "-m", "rtc.main", "replay", "--spec", json.dumps(spec)],
                               cwd=VERIF, env=env, capture_output=True, text=True)
            if p.returncode != 0:
                print(p.stderr[-2000:])
                return 3
            res = json.loads(p.stdout)
            print("now: error=%s actions=%s" % (res["error"], res["n_actions"]))
            hit = False
            for pr, cl, d in res["violations"]:
                mark = ""
                if pr == rp["property"] and cl == rp["clause"]:
                    hit = True
                    mark = "   <== reproduces"
                print("   %s %s %s%s" % (pr, cl, d, mark))
            if res["error"] and rp["property"] == "C17":
                hit = True
            print("stream head:", res["stream_head"][:12])
            print("REPRODUCED" if hit else "not reproduced on the current tree")
            return 1 if hit else 0
        print("(re-run `%s/check %s` to re-evaluate this clause)" % (VERIF, rp.get("property")))
        return 0
    if rp.get("kind") == "vc":
        print("obligation:", rp.get("obligation"), "\nclause:", rp.get("clause"),
              "\nlocation:", rp.get("location"))
        print("solver model:", json.dumps(rp.get("model"), indent=1, default=str)[:3000])
        print("native replay recorded:", rp.get("native_replay"))
        try:
            from pyvc import api
            return api.replay(rp, repo=REPO)
        except Exception as exc:
            print("replay engine error:", exc)
            return 3
    return 0


def main(argv):
    if not argv:
        print(__doc__)
        return 3
    tier = os.environ.get("VERIF_TIER", "quick")
    seed = int(os.environ.get("VERIF_SEED", "0"))
    args = list(argv)
    if "--tier" in args:
        i = args.index("--tier")
        tier = args[i + 1]
        del args[i:i + 2]
    if "--seed" in args:
        i = args.index("--seed")
        seed = int(args[i + 1])
        del args[i:i + 2]
    cmd = args[0]
    if cmd == "replay":
        return replay(args[1])
    if cmd == "selftest":
        from pyvc import selftest
        return selftest.main(args[1:])
    if cmd == "all":
        from pyvc import api
        full = api.run_all(tier=tier, seed=seed, repo=REPO)
        worst = 0
        for p in ALL:
            rc = decide(p, tier, seed, vc=api.split_by_property(full, p))
            worst = max(worst, rc)
        return worst
    if cmd == "ledger":
        from pyvc import api
        full = api.run_all(tier="thorough", seed=seed, repo=REPO)
        led = {}
        for o in full["obligations"]:
            e = led.setdefault(o["name"], {"status": "discharged", "props": o["props"], "count": 0,
                                           "max_time_s": 0.0})
            e["count"] += 1
            if o.get("time_s", 0.0) >= e["max_time_s"] and o.get("backend") not in (None, "z3-simplify", "frames"):
                e["backend"] = o.get("backend")      # the stage that discharged the slowest instance
            e["max_time_s"] = max(e["max_time_s"], o.get("time_s", 0.0))
            if o["status"] != "discharged":
                e["status"] = o["status"]
        bad = {k: v for k, v in led.items() if v["status"] != "discharged"}
        sites = full.get("covers", {}).get("status_by_site", {})
        reach = sorted(k for k, v in sites.items() if v != "unsat")
        with open(os.path.join(VERIF, "ledger.json"), "w") as f:
            json.dump({"_comment": "committed; generated by `./check ledger` on the reference tree; "
                                   "never written by a check", "obligations": led,
                       "reachable_sites": reach,
                       "code_hashes": __import__("pyvc.source", fromlist=["SourceIndex"]).SourceIndex(REPO).code_hashes(),
                       "refuted_sites": sorted(k for k, v in sites.items() if v == "unsat")},
                      f, indent=0, sort_keys=True)
        print("cover sites: %d not refuted (%d proved reachable), refuted: %s" % (
            len(reach), sum(1 for v in sites.values() if v == "sat"),
            sorted(k for k, v in sites.items() if v == "unsat")))
        print("ledger: %d obligation names, %d VCs, not discharged: %s" % (
            len(led), sum(v["count"] for v in led.values()), list(bad)[:10]))
        return 0 if not bad else 2
    if cmd in ALL:
        return decide(cmd, tier, seed)
    print("unknown command", cmd)
    return 3
