"""Sidecar contracts for checkpoint_schedules/hrevolve_sequences/basic_functions.py and utils.py
(F31, F33, F46)."""
from pyvc.contracts import Contract, ClassSpec, LoopSpec


def register(reg):
    # F31 ---------------------------------------------------------------- argmin
    # 1-based index of the *last* position attaining the minimum
    reg.add(Contract(
        "seq.basic_functions.argmin", params=[("list", ("list", ["real"]))],
        requires=[("non_empty", "len(list) >= 1")],
        returns="int",
        ensures=[("in_range", "1 <= result and result <= len(list)"),
                 ("attains_minimum", "forall(0, len(list), lambda j: list[result - 1] <= list[j])"),
                 ("last_minimiser", "forall(0, len(list), lambda j: implies(j >= result, list[j] > list[result - 1]))")],
        frame=[], props=("C05", "C07"), exc_props={"*": ("C17", "C07")},
        loops=[LoopSpec("for (i, _) in enumerate(list)", [
            ("index", "0 <= it_i and it_i <= len(list)"),
            ("candidate", "0 <= index and index < len(list) and index <= max(it_i - 1, 0) and m == list[index]"),
            ("minimum_so_far", "forall(0, it_i, lambda j: m <= list[j])"),
            ("last_so_far", "forall(0, it_i, lambda j: implies(j > index, list[j] > m))")],
            decreases="len(list) - it_i")]))

    # F46 ---------------------------------------------------------------- revolver_parameters
    reg.add(Contract(
        "seq.utils.revolver_parameters",
        params=[("wd", "real"), ("rd", "real"), ("uf", "real"), ("ub", "real")],
        returns=("dict", {"uf": "real", "ub": "real", "up": "int", "wd": "real", "rd": "real", "mx": "none",
                          "one_read_disk": "bool", "fast": "bool", "concat": "int", "print_table": "str"}),
        ensures=[("uf", "result['uf'] == uf"), ("ub", "result['ub'] == ub"), ("wd", "result['wd'] == wd"),
                 ("rd", "result['rd'] == rd"), ("one_read_disk", "result['one_read_disk'] == True"),
                 ("mx_default", "result['mx'] is None"), ("not_fast", "result['fast'] == False"),
                 ("concat", "result['concat'] == 0")],
        frame=[], props=("C07", "C19")))
    # the same function called with per-level cost vectors (H-Revolve)
    V2 = ("tuple", ["real", "real"])
    reg.add(Contract(
        "seq.utils.revolver_parameters#vectors",
        params=[("wd", V2), ("rd", V2), ("uf", "real"), ("ub", "real")],
        returns=("dict", {"uf": "real", "ub": "real", "up": "int", "wd": V2, "rd": V2, "mx": "none",
                          "one_read_disk": "bool", "fast": "bool", "concat": "int", "print_table": "str"}),
        ensures=[("uf", "result['uf'] == uf"), ("ub", "result['ub'] == ub"),
                 ("wd", "result['wd'][0] == wd[0] and result['wd'][1] == wd[1]"),
                 ("rd", "result['rd'][0] == rd[0] and result['rd'][1] == rd[1]"),
                 ("concat", "result['concat'] == 0")],
        frame=[], props=("C07",)))
