"""Sidecar contracts for checkpoint_schedules/hrevolve.py (F26, F28)."""
from pyvc.contracts import Contract, ClassSpec, LoopSpec


def register(reg):
    reg.add_class(ClassSpec(
        "RevolveCheckpointSchedule", "hrevolve", bases=("CheckpointSchedule",),
        fields=[("_exhausted", "bool"), ("_snapshots_on_disk", "optint"), ("_snapshots_in_ram", "int"),
                ("_schedule", "int")],
        invariant=[("offline", "self._max_n is not None and self._max_n >= 1"),
                   ("ram_units", "self._snapshots_in_ram >= 1")]))
    # F26: the operation list is opaque here (an identity): the constructor stores what it is given
    reg.add(Contract(
        "hrevolve.RevolveCheckpointSchedule.__init__", self_class="RevolveCheckpointSchedule",
        params=[("self", "obj"), ("max_n", "int"), ("snapshots_in_ram", "int"),
                ("snapshots_on_disk", "optint"), ("schedule", "int")],
        raises=[("ValueError", "max_n < 1"),
                ("AssertionError", "max_n >= 1 and snapshots_in_ram <= 0")],
        ensures=[("n_zero", "self._n == 0"), ("r_zero", "self._r == 0"),
                 ("offline", "self._max_n is not None and self._max_n == max_n and max_n >= 1"),
                 ("ram_units", "self._snapshots_in_ram == snapshots_in_ram and snapshots_in_ram >= 1"),
                 ("disk_units", "self._snapshots_on_disk == snapshots_on_disk"),
                 ("schedule_stored", "self._schedule == schedule"), ("not_exhausted", "not self._exhausted")],
        frame=["_n", "_r", "_max_n", "_exhausted", "_snapshots_on_disk", "_snapshots_in_ram", "_schedule"],
        props=("C17", "C08"), exc_props={"ValueError": ("C17",), "AssertionError": ("C17",)}))
    reg.add(Contract(
        "hrevolve.RevolveCheckpointSchedule.is_exhausted", self_class="RevolveCheckpointSchedule",
        params=[("self", "obj")], is_property=True, pure=True, returns="bool",
        ensures=[("flag", "result == self._exhausted")], frame=[], props=("C09", "C15")))
    # F28: total on every member and every subclass's field values (snapshots_on_disk may be None =
    # unbounded for DiskRevolve / PeriodicDiskRevolve); exact table
    reg.add(Contract(
        "hrevolve.RevolveCheckpointSchedule.uses_storage_type", self_class="RevolveCheckpointSchedule",
        params=[("self", "obj"), ("storage_type", "storage")], returns="bool",
        ensures=[("ram_always_used", "implies(storage_type == StorageType.RAM, result)"),
                 ("disk_reported_unless_zero_units",
                  "implies(storage_type == StorageType.DISK, result == (self._snapshots_on_disk is None or "
                  "self._snapshots_on_disk > 0))"),
                 ("others_unused", "implies(storage_type == StorageType.WORK or storage_type == StorageType.NONE, "
                                   "not result)")],
        frame=[], props=("C11", "C15"), exc_props={"*": ("C11",)}))
