"""Sidecar contracts for checkpoint_schedules/hrevolve.py (F26, F28)."""
from pyvc.contracts import Contract, ClassSpec, LoopSpec


from .shapes import (PAIR_TYPES, LEVEL_TYPES, WORK_PAIR, WORK_SCALAR, DISK_SCALAR, RAM_SCALAR,  # noqa: F401
                     SCALAR_TYPES, KNOWN_TYPES, WRITE_TYPES, SHAPE, LIST_SHAPE, LIST_SHAPE_WRITES,
                     CHECKPOINT_WRITES, one_of)


def register(reg):
    register_operations(reg)
    register_base(reg)
    register_iterator(reg)


def register_iterator(reg):
    """F27: the part of the executor that follows from the iterator alone, for every list of
    well-shaped operations, on the paths where the iterator does not raise itself (its guards:
    InvalidForwardStep / InvalidActionIndex / InvalidReverseStep / InvalidRevolverAction /
    RuntimeError, the KeyError of snapshots.remove and the IndexError of the look-ahead at i + 3)."""
    PREV = "self._schedule[i - 1]"
    COSTS = "C_UF, C_UB, C_WD, C_RD"
    for cname in ("C_UF", "C_UB", "C_WD", "C_RD"):
        reg.spec_constant(cname, "real")
    # OPSUM(k, costs): cost of the first k operations of self._schedule (defined relative to the
    # list the iterator works on, which it never assigns)
    reg.spec_function("OPSUM", ["int", "real", "real", "real", "real"], "real")
    OPSUM_DEF = [
        ("opsum_of_nothing", "OPSUM(0, %s) == 0" % COSTS),
        ("opsum_adds_the_next_operation",
         "forall(1, len(self._schedule) + 1, lambda k: OPSUM(k, %s) == OPSUM(k - 1, %s) + "
         "op_cost(self._schedule[k - 1], %s))" % (COSTS, COSTS, COSTS))]
    INV = [
        ("index", "0 <= i and i <= len(self._schedule)"),
        ("offline", "self._max_n is not None and self._max_n == g.N and not g.done and not self._exhausted"),
        ("position", "self._n == g.fwd and self._n >= 0"),
        ("counter", "self._r == g.adj"),
        ("store_is_snapshot_set", "g.S == snapshots"),
        # the Write_Forward that precedes a Forward was checked against schedule.n + 1 when it was
        # processed, and schedule.n has not changed since
        ("pending_dependency_write",
         "implies(i >= 1 and %s.type == 'Write_Forward', %s.index[1] == self._n + 1) and "
         "implies(i >= 1 and %s.type == 'Write_Forward_memory', scalar(%s.index) == self._n + 1)"
         % (PREV, PREV, PREV, PREV)),
        # a checkpoint write is paid for by the Forward that follows it
        ("cost_so_far", "g.cost + (op_cost(%s, %s) if (i >= 1 and %s) else 0) == OPSUM(i, %s)"
         % (PREV, COSTS, one_of(PREV + ".type", CHECKPOINT_WRITES), COSTS)),
    ]
    reg.add(Contract(
        "hrevolve.RevolveCheckpointSchedule._iterator", self_class="RevolveCheckpointSchedule",
        params=[("self", "obj")],
        requires=[("fresh_n", "self._n == 0"), ("fresh_r", "self._r == 0"),
                  ("not_exhausted", "not self._exhausted"),
                  # assumption on the list built by the sequence functions (validated at run time):
                  # the iterator looks at schedule[i - 1], i.e. at the last operation when i == 0
                  ("list_does_not_end_with_a_write", LIST_SHAPE.replace("schedule", "self._schedule")),
                  ("every_checkpoint_write_is_followed_by_a_forward",
                   LIST_SHAPE_WRITES.replace("schedule", "self._schedule"))],
        definitions=OPSUM_DEF,
        frame=["_n", "_r", "_exhausted"],
        props=("C01", "C02", "C03", "C04", "C07", "C08", "C09", "C11", "C12", "C18", "C19"),
        total=False, implicit_guards=("remove_key_present", "index_in_range"),
        exc_props={"*": ("C17", "C01", "C02")},
        locals={"w_n0": "int", "w_storage": ("opt", "storage"), "w_cp_action": "str",
                "d_cp_action": "str", "d_n0": "int", "cp_action": "str", "n_0": "int", "n_1": "optint",
                "storage": ("opt", "storage")},
        hooks={"module": "ghost", "init": "rv_init", "emit_Forward": "rv_forward",
               "emit_EndForward": "rv_end_forward", "emit_Reverse": "rv_reverse", "emit_Copy": "rv_copy",
               "emit_Move": "rv_move", "emit_EndReverse": "rv_end_reverse", "stop": "rv_stop"},
        loops=[
            LoopSpec("for j in range(len(self._schedule) - 1, -1, -1)", [
                ("index", "-1 <= it_j and it_j <= len(self._schedule) - 1")],
                decreases="it_j + 1"),
            LoopSpec("i < len(self._schedule)", INV, decreases="len(self._schedule) - i"),
        ]))


def register_operations(reg):
    # F33 (view used by the iterator): an operation is (type, index); index is a step or a pair.
    # The shape invariant is what every construction site of the sequence builders produces; it is
    # an assumption here about the list handed to the constructor (validated at run time on every
    # schedule of the bounded boxes: rtc operation_shape).
    reg.add_class(ClassSpec("SchedOp", "hrevolve", fields=[("type", "str"), ("index", "opindex")],
                            invariant=SHAPE))
    A = "action.type"
    reg.add(Contract(
        "hrevolve._convert_action", params=[("action", ("obj", "SchedOp"))],
        returns=("tuple", ["str", ("tuple", ["int", "optint", ("opt", "storage")])]),
        # only the structural part of the shape (what the unpacking and the level lookup need);
        # the function's own checks of the step values are part of its exceptional contract
        requires=[("shape:" + l, e.replace("self.", "action.")) for l, e in SHAPE[:3]],
        raises=[("RuntimeError", "(action.type == 'Forward' and action.index[1] <= action.index[0]) or "
                                 "(action.type == 'Backward' and action.index[0] <= action.index[1])"),
                ("InvalidRevolverAction", "not %s" % one_of(A, KNOWN_TYPES))],
        ensures=[
            ("name_is_type", "result[0] == action.type"),
            ("forward", "implies(action.type == 'Forward', result[1][0] == action.index[0] and "
                        "result[1][1] is not None and result[1][1] == action.index[1] and "
                        "result[1][0] < result[1][1] and result[1][2] is None)"),
            ("backward", "implies(action.type == 'Backward', result[1][0] == action.index[0] and "
                         "result[1][1] is not None and result[1][1] == action.index[1] and "
                         "result[1][0] > result[1][1] and result[1][2] is None)"),
            ("levelled", "implies(%s, result[1][0] == action.index[1] and result[1][1] is None and "
                         "result[1][2] is not None and result[1][2] == (StorageType.RAM if action.index[0] == 0 "
                         "else StorageType.DISK))" % one_of(A, LEVEL_TYPES)),
            ("work_pair", "implies(%s, result[1][0] == action.index[1] and result[1][1] is None and "
                          "result[1][2] is not None and result[1][2] == StorageType.WORK)" % one_of(A, WORK_PAIR)),
            ("work_step", "implies(%s, result[1][0] == scalar(action.index) and result[1][1] is None and "
                          "result[1][2] is not None and result[1][2] == StorageType.WORK)" % one_of(A, WORK_SCALAR)),
            ("disk_step", "implies(%s, result[1][0] == scalar(action.index) and result[1][1] is None and "
                          "result[1][2] is not None and result[1][2] == StorageType.DISK)" % one_of(A, DISK_SCALAR)),
            ("ram_step", "implies(%s, result[1][0] == scalar(action.index) and result[1][1] is None and "
                         "result[1][2] is not None and result[1][2] == StorageType.RAM)" % one_of(A, RAM_SCALAR)),
        ],
        frame=[], props=("C18", "C01", "C11"),
        exc_props={"RuntimeError": ("C17",), "InvalidRevolverAction": ("C17",), "*": ("C17", "C18")}))


def register_base(reg):
    reg.add_class(ClassSpec(
        "RevolveCheckpointSchedule", "hrevolve", bases=("CheckpointSchedule",),
        fields=[("_exhausted", "bool"), ("_snapshots_on_disk", "optint"), ("_snapshots_in_ram", "int"),
                ("_schedule", ("objlist", "SchedOp"))],
        invariant=[("offline", "self._max_n is not None and self._max_n >= 1"),
                   ("ram_units", "self._snapshots_in_ram >= 1")]))
    # F26: the operation list is opaque here (an identity): the constructor stores what it is given
    reg.add(Contract(
        "hrevolve.RevolveCheckpointSchedule.__init__", self_class="RevolveCheckpointSchedule",
        params=[("self", "obj"), ("max_n", "int"), ("snapshots_in_ram", "int"),
                ("snapshots_on_disk", "optint"), ("schedule", ("objlist", "SchedOp"))],
        raises=[("ValueError", "max_n < 1"),
                ("AssertionError", "max_n >= 1 and snapshots_in_ram <= 0")],
        ensures=[("n_zero", "self._n == 0"), ("r_zero", "self._r == 0"),
                 ("offline", "self._max_n is not None and self._max_n == max_n and max_n >= 1"),
                 ("ram_units", "self._snapshots_in_ram == snapshots_in_ram and snapshots_in_ram >= 1"),
                 ("disk_units", "self._snapshots_on_disk == snapshots_on_disk"),
                 ("schedule_stored", "self._schedule == schedule"), ("not_exhausted", "not self._exhausted")],
        frame=["_n", "_r", "_max_n", "_exhausted", "_snapshots_on_disk", "_snapshots_in_ram", "_schedule"],
        props=("C17", "C08"), exc_props={"ValueError": ("C17",), "AssertionError": ("C17",)}))
    reg.add(Contract(
        "hrevolve.RevolveCheckpointSchedule.is_exhausted", self_class="RevolveCheckpointSchedule",
        params=[("self", "obj")], is_property=True, pure=True, returns="bool",
        ensures=[("flag", "result == self._exhausted")], frame=[], props=("C09", "C15")))
    # F28: total on every member and every subclass's field values (snapshots_on_disk may be None =
    # unbounded for DiskRevolve / PeriodicDiskRevolve); exact table
    reg.add(Contract(
        "hrevolve.RevolveCheckpointSchedule.uses_storage_type", self_class="RevolveCheckpointSchedule",
        params=[("self", "obj"), ("storage_type", "storage")], returns="bool",
        ensures=[("ram_always_used", "implies(storage_type == StorageType.RAM, result)"),
                 ("disk_reported_unless_zero_units",
                  "implies(storage_type == StorageType.DISK, result == (self._snapshots_on_disk is None or "
                  "self._snapshots_on_disk > 0))"),
                 ("others_unused", "implies(storage_type == StorageType.WORK or storage_type == StorageType.NONE, "
                                   "not result)")],
        frame=[], props=("C11", "C15"), exc_props={"*": ("C11",)}))
