"""Ghost executor (DESIGN.md section 5), symbolic back end.

Ordinary Python in the verified subset.  The VC engine inlines `emit_*` at every
`yield` of a schedule iterator; each `assert c, "Cxx:label"` is a proof obligation
tagged with its property, each assignment to `g.*` updates the ghost state.
The bounded layer runs the same functions natively next to the reference
executor (model validation).

Ghost state g (all classes):
  N        true number of steps (unknown to an online schedule until finalize)
  known    the schedule has been told N (offline: from construction)
  phase    0 forward sweep, 1 after EndForward
  fwd_def, fwd   forward state position in WORK (defined?, step)
  adj      steps reversed in the current pass; adjoint position e = N - adj
  work_ics loaded restart data not yet consumed by a Forward
  wlo,whi  steps whose adjoint dependencies are in WORK: [wlo, whi)
  passes, done, told
Store representations are per class (coupling invariants in the loop contracts).
"""
from checkpoint_schedules.schedule import StorageType
from .ghostlib import assume, implies, forall, exists, nondet_int, MAXSIZE  # noqa: F401


# ---------------------------------------------------------------------------- common
def init_common(self, g):
    g.phase = 0
    g.fwd_def = True
    g.fwd = 0
    g.adj = 0
    g.work_ics = False
    g.wlo = 0
    g.whi = 0
    g.passes = 0
    g.done = False
    g.told = 0
    g.nfwd = 0


def counters(self, g):
    # C08 after every action
    if g.fwd_def:
        assert self._n == g.fwd, "C08:n_is_forward_position"
    assert self._r == g.adj, "C08:r_is_steps_reversed"
    if g.known:
        assert self._max_n is not None and self._max_n == g.N, "C08:max_n_is_true_step_count"
    else:
        assert self._max_n is None, "C08:max_n_unknown_before_finalize"


def forward_common(self, g, n0, n1, write_ics, write_adj_deps, storage):
    assert not g.done, "C02,C09:nothing_after_final_action"
    assert 0 <= n0 and n0 < n1, "C18:forward_0<=n0<n1"
    if storage == StorageType.RAM or storage == StorageType.DISK:
        assert write_ics or write_adj_deps, "C18:forward_ram_disk_only_if_written"
        assert not (write_ics and write_adj_deps), "C03,C18:checkpoint_never_both_kinds"
    if storage == StorageType.NONE:
        assert not write_ics and not write_adj_deps, "C18:forward_none_only_if_nothing_written"
    assert g.fwd_def and g.fwd == n0, "C01:forward_starts_at_forward_state"
    if g.known:
        assert n1 <= g.N - g.adj, "C12:forward_beyond_adjoint_position"
    g.told = n1
    g.nfwd = g.nfwd + 1
    g.work_ics = False


def online_advance(self, g, n0, n1):
    """Online schedule, not finalised: the client runs Forward(n0, n1), finds the true end N
    inside it (n0 < N <= n1) and calls finalize(N) before asking for the next action."""
    if (not g.known) and n1 >= g.N:
        assert self._n >= g.N, "C10:finalize_at_true_end_accepted"
        self.finalize(g.N)
        g.known = True
        g.fwd = g.N
    else:
        g.fwd = n1


def reverse_common(self, g, n1, n0, clear_adj_deps):
    assert not g.done, "C02,C09:nothing_after_final_action"
    assert g.phase == 1, "C02:reverse_before_EndForward"
    assert 0 <= n0 and n0 < n1, "C18:reverse_n1>n0>=0"
    assert n1 == g.N - g.adj, "C02:reverse_starts_at_adjoint_position"
    assert g.wlo <= n0 and n1 <= g.whi, "C01:reverse_deps_in_work"
    g.adj = g.adj + (n1 - n0)
    if clear_adj_deps:
        g.wlo = 0
        g.whi = 0


def end_forward_common(self, g):
    assert not g.done, "C02,C09:nothing_after_final_action"
    assert g.phase == 0, "C02:EndForward_exactly_once"
    assert g.known and g.fwd_def and g.fwd == g.N, "C02:EndForward_when_forward_complete"
    g.phase = 1


def load_common(self, g, n, from_storage, to_storage):
    assert not g.done, "C02,C09:nothing_after_final_action"
    assert g.phase == 1, "C02:copy_move_before_EndForward"
    assert from_storage == StorageType.RAM or from_storage == StorageType.DISK, \
        "C18:copy_move_source_ram_or_disk"
    assert n >= 0, "C18:copy_move_step_nonnegative"
    assert n < g.N - g.adj, "C01:checkpoint_before_adjoint_position"
    if to_storage == StorageType.WORK:
        assert not g.work_ics, "C12:load_while_unused_restart_data_in_work"
        assert g.wlo >= g.whi, "C12:load_while_adj_deps_in_work"


# ---------------------------------------------------------------------------- SingleMemory
def sm_init(self, g):
    g.N = nondet_int()
    assume(g.N >= 1)
    g.known = False
    init_common(self, g)


def sm_forward(self, g, n0, n1, write_ics, write_adj_deps, storage):
    forward_common(self, g, n0, n1, write_ics, write_adj_deps, storage)
    assert g.phase == 0, "C02:forward_sweep_only_before_EndForward"
    assert storage == StorageType.WORK, "C03:nothing_outside_work"
    assert write_adj_deps and not write_ics, "C01:all_adjoint_dependencies_kept"
    # this schedule keeps the dependencies of all steps in WORK (the C12 exemption): every
    # Forward extends the kept interval [0, whi)
    assert n0 == g.whi, "C01:all_adjoint_dependencies_kept"
    online_advance(self, g, n0, n1)
    g.whi = g.fwd
    counters(self, g)
    assert not self.is_exhausted, "C09:is_exhausted_false_while_actions_remain"


def sm_end_forward(self, g):
    end_forward_common(self, g)
    counters(self, g)
    assert not self.is_exhausted, "C09:is_exhausted_false_while_actions_remain"


def sm_reverse(self, g, n1, n0, clear_adj_deps):
    reverse_common(self, g, n1, n0, clear_adj_deps)
    counters(self, g)
    assert not self.is_exhausted, "C09:is_exhausted_false_while_actions_remain"


def sm_end_reverse(self, g):
    assert g.phase == 1, "C02:EndReverse_before_EndForward"
    assert g.adj == g.N, "C02:EndReverse_when_step0_reversed"
    g.passes = g.passes + 1
    # unlimited passes: nothing stored outside WORK, so storage at EndReverse == at EndForward (C04)
    g.adj = 0
    assert self._r == 0, "C08:r_reset_at_EndReverse_iff_more_passes"
    assert self._n == g.fwd, "C08:n_is_forward_position"
    assert not self.is_exhausted, "C09:is_exhausted_false_while_actions_remain"


# ---------------------------------------------------------------------------- SingleDisk
# DISK holds one DEPS checkpoint per step in [0, g.dhi); each covers [j, j+1).
def sd_init(self, g):
    g.N = nondet_int()
    assume(g.N >= 1)
    g.known = False
    g.dhi = 0
    init_common(self, g)


def sd_forward(self, g, n0, n1, write_ics, write_adj_deps, storage):
    forward_common(self, g, n0, n1, write_ics, write_adj_deps, storage)
    assert g.phase == 0, "C02:forward_sweep_only_before_EndForward"
    assert storage == StorageType.DISK, "C03:nothing_outside_disk"
    assert write_adj_deps and not write_ics, "C01:all_adjoint_dependencies_kept"
    assert n1 == n0 + 1, "C01:one_step_per_disk_checkpoint"
    assert n0 == g.dhi, "C01:no_overwrite"
    assert self.uses_storage_type(storage), "C11:uses_storage_type_true_for_every_storage_touched"
    online_advance(self, g, n0, n1)
    g.dhi = g.fwd
    counters(self, g)
    assert not self.is_exhausted, "C09:is_exhausted_false_while_actions_remain"


def sd_end_forward(self, g):
    end_forward_common(self, g)
    assert g.dhi == g.N, "C01:every_step_has_its_dependencies_on_disk"
    counters(self, g)
    assert not self.is_exhausted, "C09:is_exhausted_false_while_actions_remain"


def sd_copy(self, g, n, from_storage, to_storage):
    load_common(self, g, n, from_storage, to_storage)
    assert not self._move_data, "C09:copy_only_when_repeats_are_permitted"
    assert self.uses_storage_type(from_storage), "C11:uses_storage_type_true_for_every_storage_touched"
    assert from_storage == StorageType.DISK and to_storage == StorageType.WORK, "C03:nothing_outside_disk"
    assert 0 <= n and n < g.dhi, "C01:checkpoint_present"
    g.fwd_def = False
    g.wlo = n
    g.whi = n + 1
    counters(self, g)
    assert not self.is_exhausted, "C09:is_exhausted_false_while_actions_remain"


def sd_move(self, g, n, from_storage, to_storage):
    load_common(self, g, n, from_storage, to_storage)
    assert self._move_data, "C09:move_only_for_single_pass"
    assert self.uses_storage_type(from_storage), "C11:uses_storage_type_true_for_every_storage_touched"
    assert from_storage == StorageType.DISK and to_storage == StorageType.WORK, "C03:nothing_outside_disk"
    assert 0 <= n and n < g.dhi, "C01:checkpoint_present"
    assert n == g.dhi - 1, "C04:moves_remove_the_top_checkpoint"
    g.dhi = n
    g.fwd_def = False
    g.wlo = n
    g.whi = n + 1
    counters(self, g)
    assert not self.is_exhausted, "C09:is_exhausted_false_while_actions_remain"


def sd_reverse(self, g, n1, n0, clear_adj_deps):
    reverse_common(self, g, n1, n0, clear_adj_deps)
    assert g.wlo >= g.whi, "C12:work_holds_no_dependencies_after_reverse"
    counters(self, g)
    assert not self.is_exhausted, "C09:is_exhausted_false_while_actions_remain"


def sd_end_reverse(self, g):
    assert g.phase == 1, "C02:EndReverse_before_EndForward"
    assert g.adj == g.N, "C02:EndReverse_when_step0_reversed"
    g.passes = g.passes + 1
    if self._move_data:
        # the single permitted adjoint calculation: this is the final action
        assert g.dhi == 0, "C04:storage_empty_at_final_EndReverse"
        assert self._r == g.N, "C08:r_reset_at_EndReverse_iff_more_passes"
        g.done = True
        assert self.is_exhausted, "C09:is_exhausted_true_once_final_action_emitted"
    else:
        assert g.dhi == g.N, "C04,C09:storage_at_EndReverse_equals_storage_at_EndForward"
        g.adj = 0
        assert self._r == 0, "C08:r_reset_at_EndReverse_iff_more_passes"
        assert not self.is_exhausted, "C09:is_exhausted_false_while_actions_remain"


def sd_stop(self, g):
    assert g.done, "C02,C09:stream_ends_only_after_final_action"


# ---------------------------------------------------------------------------- None
def nn_init(self, g):
    g.N = nondet_int()
    assume(g.N >= 1)
    g.known = False
    init_common(self, g)


def nn_forward(self, g, n0, n1, write_ics, write_adj_deps, storage):
    forward_common(self, g, n0, n1, write_ics, write_adj_deps, storage)
    assert storage == StorageType.NONE, "C03:nothing_stored"
    assert not write_ics and not write_adj_deps, "C03:nothing_stored"
    online_advance(self, g, n0, n1)
    counters(self, g)
    assert not self.is_exhausted, "C09:is_exhausted_false_while_actions_remain"


def nn_end_forward(self, g):
    end_forward_common(self, g)
    counters(self, g)
    # no adjoint calculation permitted: EndForward is the final action
    g.done = True
    assert self.is_exhausted, "C09:is_exhausted_true_once_final_action_emitted"


def nn_stop(self, g):
    assert g.done, "C02,C09:stream_ends_only_after_final_action"


# ---------------------------------------------------------------------------- Multistage
# Store = LIFO stack: entry i is the restart checkpoint of step g.cs[i], held in storage
# self._storage[i], covering [g.cs[i], g.cov[i]).
def ms_init(self, g):
    g.N = self._max_n
    g.known = True
    g.cs = []
    g.cov = []
    # C05: forward steps taken so far, and the potential of the segments left of each stack entry:
    # P[i] = sum over i' < i of WADV(cs[i'+1] - cs[i'], S - i'), the steps the n_advance recurrence
    # still owes for the segment between two consecutive checkpoints
    g.P = []
    g.taken = 0
    # the constructor arguments (proved by __init__: ram_within_declared / disk_within_declared)
    g.decl_ram = nondet_int()
    g.decl_disk = nondet_int()
    assume(self._snapshots_in_ram <= g.decl_ram)
    assume(self._snapshots_on_disk <= g.decl_disk)
    init_common(self, g)


def stack_write(self, g, n0, n1, write_ics, write_adj_deps, storage):
    """Forward(n0, n1, write_ics=True, storage in {RAM, DISK}): push a restart checkpoint."""
    k = len(g.cs)
    assert write_ics and not write_adj_deps, "C03:restart_checkpoints_only"
    assert k < len(self._storage), "C03:unit_available"
    assert storage == self._storage[k], "C01,C14:stack_position_keeps_one_storage"
    assert self.uses_storage_type(storage), "C11:uses_storage_type_true_for_every_storage_touched"
    assert forall(0, k, lambda i: g.cs[i] != n0), "C01:no_overwrite"
    if hasattr(g, "P"):
        if k >= 1:
            g.P.append(g.P[k - 1] + WADV(n0 - g.cs[k - 1],
                                         self._snapshots_in_ram + self._snapshots_on_disk - k + 1, self._trajectory))
        else:
            g.P.append(0)
    g.cs.append(n0)
    g.cov.append(n1)
    g.wlo = 0
    g.whi = 0
    assert CNT(self._storage, k + 1, StorageType.RAM) <= g.decl_ram, "C03:ram_budget"
    assert CNT(self._storage, k + 1, StorageType.DISK) <= g.decl_disk, "C03:disk_budget"


def work_forward(self, g, n0, n1, write_ics, write_adj_deps):
    assert not write_ics, "C18:no_restart_data_to_work"
    if write_adj_deps:
        assert n1 == n0 + 1 and n1 == g.N - g.adj, "C12:work_adj_deps_only_for_step_before_adjoint"
        g.wlo = n0
        g.whi = n1
    else:
        g.wlo = 0
        g.whi = 0


def ms_forward(self, g, n0, n1, write_ics, write_adj_deps, storage):
    forward_common(self, g, n0, n1, write_ics, write_adj_deps, storage)
    assert storage != StorageType.NONE, "C18:forward_storage_used"
    g.fwd = n1
    g.taken = g.taken + (n1 - n0)
    if storage == StorageType.WORK:
        work_forward(self, g, n0, n1, write_ics, write_adj_deps)
    else:
        stack_write(self, g, n0, n1, write_ics, write_adj_deps, storage)
    counters(self, g)
    assert not self.is_exhausted, "C09:is_exhausted_false_while_actions_remain"


def ms_end_forward(self, g):
    end_forward_common(self, g)
    counters(self, g)
    assert not self.is_exhausted, "C09:is_exhausted_false_while_actions_remain"


def ms_reverse(self, g, n1, n0, clear_adj_deps):
    reverse_common(self, g, n1, n0, clear_adj_deps)
    assert n1 == n0 + 1, "C12:one_step_of_dependencies"
    assert g.wlo >= g.whi, "C12:work_holds_no_dependencies_after_reverse"
    counters(self, g)
    assert not self.is_exhausted, "C09:is_exhausted_false_while_actions_remain"


def stack_load(self, g, n, from_storage, to_storage):
    k = len(g.cs)
    assert to_storage == StorageType.WORK, "C18:loads_go_to_work"
    assert k >= 1 and g.cs[k - 1] == n and self._storage[k - 1] == from_storage, \
        "C01:checkpoint_present_on_top_of_stack"
    assert g.cov[k - 1] >= g.N - g.adj, "C01:restart_checkpoint_covers_steps_to_recompute"
    assert self.uses_storage_type(from_storage), "C11:uses_storage_type_true_for_every_storage_touched"
    g.fwd_def = True
    g.fwd = n
    g.work_ics = True


def ms_copy(self, g, n, from_storage, to_storage):
    load_common(self, g, n, from_storage, to_storage)
    stack_load(self, g, n, from_storage, to_storage)
    counters(self, g)
    assert not self.is_exhausted, "C09:is_exhausted_false_while_actions_remain"


def ms_move(self, g, n, from_storage, to_storage):
    load_common(self, g, n, from_storage, to_storage)
    stack_load(self, g, n, from_storage, to_storage)
    g.cs.pop()
    g.cov.pop()
    g.P.pop()
    counters(self, g)
    assert not self.is_exhausted, "C09:is_exhausted_false_while_actions_remain"


def ms_end_reverse(self, g):
    assert not g.done, "C02,C09:nothing_after_final_action"
    assert g.phase == 1, "C02:EndReverse_before_EndForward"
    assert g.adj == g.N, "C02:EndReverse_when_step0_reversed"
    g.passes = g.passes + 1
    # one adjoint calculation: this is the final action
    assert len(g.cs) == 0, "C04:storage_empty_at_final_EndReverse"
    assert self._r == g.N, "C08:r_reset_at_EndReverse_iff_more_passes"
    # C05: the stream took exactly the number of forward steps of the recurrence that the real
    # n_advance induces (that this number is the Griewank-Walther optimum is the bounded T_adv check)
    assert g.taken == WADV(g.N, self._snapshots_in_ram + self._snapshots_on_disk, self._trajectory), \
        "C05:stream_steps_are_the_n_advance_recurrence"
    g.done = True
    assert self.is_exhausted, "C09:is_exhausted_true_once_final_action_emitted"


def ms_stop(self, g):
    assert g.done, "C02,C09:stream_ends_only_after_final_action"


# ---------------------------------------------------------------------------- TwoLevel
# DISK holds the periodic restart checkpoints {x : x % period == 0, 0 <= x < g.pend}; the one at
# x covers [x, min(x + period, N)).  They are never removed (unlimited adjoint passes).
# The binomial storage holds a LIFO stack (g.cs, g.cov) of extra restart checkpoints strictly
# inside the current period block.
def tl_init(self, g):
    g.N = nondet_int()
    assume(g.N >= 1)
    g.known = False
    g.pend = 0
    g.cs = []
    g.cov = []
    # C13, per period block: start and length of the block being recomputed, forward steps taken in
    # it, and the potential of the segments left of each entry of the block's checkpoint stack
    # (entry 0 is the block's periodic disk checkpoint, entries 1.. are g.cs)
    g.bs = 0
    g.bl = 0
    g.tb = 0
    g.P = []
    g.fs = []          # the block's whole checkpoint stack: its periodic checkpoint, then g.cs
    init_common(self, g)


def tl_forward(self, g, n0, n1, write_ics, write_adj_deps, storage):
    forward_common(self, g, n0, n1, write_ics, write_adj_deps, storage)
    assert storage != StorageType.NONE, "C18:forward_storage_used"
    if g.phase == 0:
        # before finalisation: exactly Forward(k*period, (k+1)*period, restart checkpoint to DISK)
        assert storage == StorageType.DISK and write_ics and not write_adj_deps, \
            "C13:forward_phase_is_periodic_disk_checkpointing"
        assert n0 == g.pend and n1 == n0 + self._period, "C13:forward_phase_is_periodic_disk_checkpointing"
        assert self.uses_storage_type(storage), "C11:uses_storage_type_true_for_every_storage_touched"
        online_advance(self, g, n0, n1)
        g.pend = n1
        g.wlo = 0
        g.whi = 0
        # one disk checkpoint per started period (C03)
        assert g.pend - self._period < g.fwd and g.fwd <= g.pend, "C03:one_disk_checkpoint_per_started_period"
    else:
        g.fwd = n1
        g.tb = g.tb + (n1 - n0)
        if storage == StorageType.WORK:
            work_forward(self, g, n0, n1, write_ics, write_adj_deps)
        else:
            k = len(g.cs)
            kp = len(g.P)
            g.P.append(g.P[kp - 1] + WADV(n0 - g.fs[kp - 1], self._binomial_snapshots + 1 - kp + 1, self._trajectory))
            g.fs.append(n0)
            assert storage == self._binomial_storage, "C13:extra_checkpoints_only_in_binomial_storage"
            assert self.uses_storage_type(storage), "C11:uses_storage_type_true_for_every_storage_touched"
            assert write_ics and not write_adj_deps, "C03:restart_checkpoints_only"
            assert k < self._binomial_snapshots, "C03:binomial_budget"
            assert forall(0, k, lambda i: g.cs[i] != n0), "C01:no_overwrite"
            assert n0 % self._period != 0, "C01:no_overwrite_of_periodic_checkpoint"
            g.cs.append(n0)
            g.cov.append(n1)
            g.wlo = 0
            g.whi = 0
    counters(self, g)
    assert not self.is_exhausted, "C09:is_exhausted_false_while_actions_remain"


def tl_end_forward(self, g):
    end_forward_common(self, g)
    counters(self, g)
    assert not self.is_exhausted, "C09:is_exhausted_false_while_actions_remain"


def tl_reverse(self, g, n1, n0, clear_adj_deps):
    reverse_common(self, g, n1, n0, clear_adj_deps)
    assert n1 == n0 + 1, "C12:one_step_of_dependencies"
    assert g.wlo >= g.whi, "C12:work_holds_no_dependencies_after_reverse"
    if g.N - g.adj == g.bs:
        # the block [bs, bs + bl) has just been reversed completely
        assert g.tb == WADV(g.bl, self._binomial_snapshots + 1, self._trajectory), \
            "C13:block_recomputed_with_the_n_advance_recurrence"
    counters(self, g)
    assert not self.is_exhausted, "C09:is_exhausted_false_while_actions_remain"


def tl_load(self, g, n, from_storage, to_storage, is_move):
    load_common(self, g, n, from_storage, to_storage)
    assert to_storage == StorageType.WORK, "C18:loads_go_to_work"
    assert self.uses_storage_type(from_storage), "C11:uses_storage_type_true_for_every_storage_touched"
    k = len(g.cs)
    if k >= 1 and g.cs[k - 1] == n:
        # the top of the binomial stack
        assert from_storage == self._binomial_storage, "C01:checkpoint_present_on_top_of_stack"
        assert g.cov[k - 1] >= g.N - g.adj, "C01:restart_checkpoint_covers_steps_to_recompute"
        if is_move:
            g.cs.pop()
            g.cov.pop()
            g.P.pop()
            g.fs.pop()
    else:
        # a periodic disk checkpoint
        if g.N - g.adj == min(n + self._period, g.N):
            # first action of a block: the adjoint stands at the block's end
            g.bs = n
            g.bl = g.N - g.adj - n
            g.tb = 0
            g.P = []
            g.P.append(0)
            g.fs = []
            g.fs.append(n)
        if n == g.N - g.adj - 1:
            g.P.pop()        # last step of the block: the periodic checkpoint leaves the stack
            g.fs.pop()
        assert from_storage == StorageType.DISK and n % self._period == 0 and 0 <= n and n < g.pend, \
            "C01:checkpoint_present"
        assert n + self._period >= g.N - g.adj, "C01:restart_checkpoint_covers_steps_to_recompute"
        assert not is_move, "C04,C09:periodic_checkpoints_are_kept_for_further_passes"
    g.fwd_def = True
    g.fwd = n
    g.work_ics = True
    counters(self, g)
    assert not self.is_exhausted, "C09:is_exhausted_false_while_actions_remain"


def tl_copy(self, g, n, from_storage, to_storage):
    tl_load(self, g, n, from_storage, to_storage, False)


def tl_move(self, g, n, from_storage, to_storage):
    tl_load(self, g, n, from_storage, to_storage, True)


def tl_end_reverse(self, g):
    assert g.phase == 1, "C02:EndReverse_before_EndForward"
    assert g.adj == g.N, "C02:EndReverse_when_step0_reversed"
    g.passes = g.passes + 1
    # unlimited passes: the periodic set is untouched and the binomial stack is empty again (C04)
    assert len(g.cs) == 0, "C04,C09:storage_at_EndReverse_equals_storage_at_EndForward"
    g.adj = 0
    assert self._r == 0, "C08:r_reset_at_EndReverse_iff_more_passes"
    assert not self.is_exhausted, "C09:is_exhausted_false_while_actions_remain"


# ---------------------------------------------------------------------------- Mixed
# Store = LIFO stack in self._storage: entry i = (g.ck[i], g.cs[i], g.cov[i]) with kind
# g.ck[i] == 4 (restart data, covers [cs, cov)) or 3 (adjoint dependencies of step cs, cov == cs+1).
def mx_init(self, g):
    g.N = self._max_n
    g.known = True
    g.ck = []
    g.cs = []
    g.cov = []
    init_common(self, g)


def mx_forward(self, g, n0, n1, write_ics, write_adj_deps, storage):
    forward_common(self, g, n0, n1, write_ics, write_adj_deps, storage)
    assert storage != StorageType.NONE, "C18:forward_storage_used"
    g.fwd = n1
    if storage == StorageType.WORK:
        work_forward(self, g, n0, n1, write_ics, write_adj_deps)
    else:
        k = len(g.cs)
        assert self.uses_storage_type(storage), "C11:uses_storage_type_true_for_every_storage_touched"
        assert storage == self._storage, "C03:only_the_chosen_storage"
        assert k < self._snapshots, "C03:unit_available"
        assert forall(0, k, lambda i: g.cs[i] != n0), "C01:no_overwrite"
        if write_adj_deps:
            assert n1 == n0 + 1, "C03:adjoint_dependencies_of_one_step_per_unit"
            g.ck.append(3)
        else:
            g.ck.append(4)
        g.cs.append(n0)
        g.cov.append(n1)
        g.wlo = 0
        g.whi = 0
    counters(self, g)
    assert not self.is_exhausted, "C09:is_exhausted_false_while_actions_remain"


def mx_end_forward(self, g):
    end_forward_common(self, g)
    counters(self, g)
    assert not self.is_exhausted, "C09:is_exhausted_false_while_actions_remain"


def mx_reverse(self, g, n1, n0, clear_adj_deps):
    reverse_common(self, g, n1, n0, clear_adj_deps)
    assert n1 == n0 + 1, "C12:one_step_of_dependencies"
    assert g.wlo >= g.whi, "C12:work_holds_no_dependencies_after_reverse"
    counters(self, g)
    assert not self.is_exhausted, "C09:is_exhausted_false_while_actions_remain"


def mx_load(self, g, n, from_storage, to_storage, is_move):
    load_common(self, g, n, from_storage, to_storage)
    assert to_storage == StorageType.WORK, "C18:loads_go_to_work"
    k = len(g.cs)
    # (C11 first: a failed assertion is assumed afterwards and would mask it)
    assert self.uses_storage_type(from_storage), "C11:uses_storage_type_true_for_every_storage_touched"
    assert from_storage == self._storage, "C01,C03:only_the_chosen_storage"
    assert k >= 1 and g.cs[k - 1] == n, "C01:checkpoint_present_on_top_of_stack"
    if g.ck[k - 1] == 4:
        assert g.cov[k - 1] >= g.N - g.adj, "C01:restart_checkpoint_covers_steps_to_recompute"
        g.fwd_def = True
        g.fwd = n
        g.work_ics = True
    else:
        assert n + 1 == g.N - g.adj, "C01:loaded_dependencies_are_those_of_the_step_to_reverse"
        g.fwd_def = False
        g.wlo = n
        g.whi = n + 1
    if is_move:
        g.ck.pop()
        g.cs.pop()
        g.cov.pop()
    counters(self, g)
    assert not self.is_exhausted, "C09:is_exhausted_false_while_actions_remain"


def mx_copy(self, g, n, from_storage, to_storage):
    mx_load(self, g, n, from_storage, to_storage, False)


def mx_move(self, g, n, from_storage, to_storage):
    mx_load(self, g, n, from_storage, to_storage, True)


def mx_end_reverse(self, g):
    assert not g.done, "C02,C09:nothing_after_final_action"
    assert g.phase == 1, "C02:EndReverse_before_EndForward"
    assert g.adj == g.N, "C02:EndReverse_when_step0_reversed"
    g.passes = g.passes + 1
    assert len(g.cs) == 0, "C04:storage_empty_at_final_EndReverse"
    assert self._r == g.N, "C08:r_reset_at_EndReverse_iff_more_passes"
    g.done = True
    assert self.is_exhausted, "C09:is_exhausted_true_once_final_action_emitted"


def mx_stop(self, g):
    assert g.done, "C02,C09:stream_ends_only_after_final_action"


# ---------------------------------------------------------------------------- Revolve family
# The stream is the conversion of an operation list built elsewhere (H-Revolve, Disk-Revolve, ...).
# What is provable from the iterator alone - for *every* operation list of well-shaped operations,
# on the paths where the iterator's own guards pass - is the local part of the executor: g.S is
# the set of (storage, step) restart checkpoints an executor holds.  Clauses that need the global
# structure of the list (presence at a Copy, coverage, budgets, phases) stay with the bounded layer.
def rv_init(self, g):
    g.N = self._max_n
    g.fwd = 0
    g.adj = 0
    g.done = False
    g.S = set()
    # cost of the stream so far for arbitrary costs C_UF, C_UB (one forward / adjoint step) and
    # C_WD, C_RD (one checkpoint written to / read from DISK); RAM and WORK transfers are free
    g.cost = 0 * C_UF


def rv_counters(self, g):
    assert self._n == g.fwd, "C08:n_is_forward_position"
    assert self._r == g.adj, "C08:r_is_steps_reversed"
    assert self._max_n is not None and self._max_n == g.N, "C08:max_n_is_true_step_count"


def rv_forward(self, g, n0, n1, write_ics, write_adj_deps, storage):
    assert not g.done, "C02,C09:nothing_after_final_action"
    assert 0 <= n0 and n0 < n1, "C18:forward_0<=n0<n1"
    if storage == StorageType.RAM or storage == StorageType.DISK:
        assert write_ics or write_adj_deps, "C18:forward_ram_disk_only_if_written"
    assert not (write_ics and write_adj_deps), "C03,C18:checkpoint_never_both_kinds"
    if storage == StorageType.NONE:
        assert not write_ics and not write_adj_deps, "C18:forward_none_only_if_nothing_written"
    assert g.fwd == n0, "C01:forward_starts_at_forward_state"
    if write_adj_deps:
        assert n1 == n0 + 1, "C12:one_step_of_dependencies"
        assert storage == StorageType.WORK, "C12:adjoint_dependencies_go_to_work"
    if write_ics:
        assert storage == StorageType.RAM or storage == StorageType.DISK, "C18,C11:restart_checkpoint_in_ram_or_disk"
        if storage == StorageType.RAM:
            assert self.uses_storage_type(storage), "C11:uses_storage_type_true_for_every_storage_touched"
        g.S.add((storage, n0))
    g.cost = g.cost + (n1 - n0) * C_UF
    if write_ics and storage == StorageType.DISK:
        g.cost = g.cost + C_WD
    g.fwd = n1
    rv_counters(self, g)
    assert not self.is_exhausted, "C09:is_exhausted_false_while_actions_remain"


def rv_end_forward(self, g):
    assert not g.done, "C02,C09:nothing_after_final_action"
    assert g.fwd == g.N, "C02:EndForward_when_forward_complete"
    assert g.adj == 0, "C02:EndForward_before_any_reverse"
    rv_counters(self, g)
    assert not self.is_exhausted, "C09:is_exhausted_false_while_actions_remain"


def rv_reverse(self, g, n1, n0, clear_adj_deps):
    assert not g.done, "C02,C09:nothing_after_final_action"
    assert 0 <= n0 and n0 < n1, "C18:reverse_n1>n0>=0"
    assert n1 == g.N - g.adj, "C02:reverse_starts_at_adjoint_position"
    assert g.fwd == n1, "C01:reverse_with_forward_state_at_adjoint_position"
    assert n1 == n0 + 1, "C12:one_step_of_dependencies"
    assert clear_adj_deps, "C12:work_holds_no_dependencies_after_reverse"
    g.adj = g.adj + (n1 - n0)
    g.cost = g.cost + (n1 - n0) * C_UB
    rv_counters(self, g)
    assert not self.is_exhausted, "C09:is_exhausted_false_while_actions_remain"


def rv_load(self, g, n, from_storage, to_storage, is_move):
    assert not g.done, "C02,C09:nothing_after_final_action"
    assert from_storage == StorageType.RAM or from_storage == StorageType.DISK, \
        "C18:copy_move_source_ram_or_disk"
    assert n >= 0, "C18:copy_move_step_nonnegative"
    assert to_storage == StorageType.WORK, "C18:loads_go_to_work"
    if from_storage == StorageType.RAM:
        assert self.uses_storage_type(from_storage), "C11:uses_storage_type_true_for_every_storage_touched"
    if is_move:
        assert (from_storage, n) in g.S, "C01:checkpoint_present_in_named_storage"
        g.S.remove((from_storage, n))
    if from_storage == StorageType.DISK:
        g.cost = g.cost + C_RD
    g.fwd = n
    rv_counters(self, g)
    assert not self.is_exhausted, "C09:is_exhausted_false_while_actions_remain"


def rv_copy(self, g, n, from_storage, to_storage):
    rv_load(self, g, n, from_storage, to_storage, False)


def rv_move(self, g, n, from_storage, to_storage):
    rv_load(self, g, n, from_storage, to_storage, True)


def rv_end_reverse(self, g):
    assert not g.done, "C02,C09:nothing_after_final_action"
    assert len(g.S) == 0, "C04:storage_empty_at_final_EndReverse"
    # the stream costs exactly what the operation list costs (C07, C19: with the builders' makespan
    # contracts this is the recurrence's optimum + n * uf)
    assert g.cost == OPSUM(len(self._schedule), C_UF, C_UB, C_WD, C_RD), \
        "C07,C19,C05:stream_cost_is_the_sum_of_the_operation_costs"
    g.done = True
    assert self._r == g.adj, "C08:r_is_steps_reversed"
    assert self.is_exhausted, "C09:is_exhausted_true_once_final_action_emitted"


def rv_stop(self, g):
    assert g.done, "C02,C09:stream_ends_only_after_final_action"
