"""Sidecar contracts for checkpoint_schedules/multistage.py (F11-F16)."""
from pyvc.contracts import Contract, ClassSpec, LoopSpec

STREAM = ("C01", "C02", "C03", "C04", "C05", "C08", "C09", "C12", "C14", "C17", "C18")
VALID_TRAJ = "(trajectory == 'maximum' or trajectory == 'revolve')"


def register(reg):
    # CNT(a, k, v): number of positions i < k with a[i] == v (prefix count, C03/C14)
    reg.declare_count()

    # F11 ---------------------------------------------------------------- n_advance
    reg.add(Contract(
        "multistage.n_advance",
        params=[("n", "int"), ("snapshots", "int"), ("trajectory", "str")],
        defaults={"trajectory": "'maximum'"},
        raises=[("ValueError", "n < 1 or snapshots <= 0 or (not %s and 2 <= snapshots and snapshots < n - 1)"
                 % VALID_TRAJ)],
        pure=True, returns="int", uf_params=["n", "snapshots", "trajectory"],
        ensures=[("single_step", "implies(n == 1, result == 0)"),
                 ("in_range", "implies(n >= 2, 1 <= result and result <= n - 1)"),
                 ("one_unit_goes_to_the_end", "implies(n >= 2 and snapshots == 1, result == n - 1)"),
                 ("enough_units_single_steps", "implies(n >= 2 and snapshots >= n - 1, result == 1)")],
        frame=[], props=("C01", "C02", "C03", "C12", "C17"),
        exc_props={"ValueError": ("C17",)},
        # cut lemmas on the floor-division terms (each a small nonlinear fact, proved where the
        # term is computed and then used linearly by the return branches)
        # (the loop has found the repetition number t of GW2000: beta(s, t-1) < n <= beta(s, t); a search
        # that gives up early still returns a step in range, so this is stated on its own)
        hints={"b_sm1_tm2": [("repetition_number_found", "b_s_tm1 < n and n <= b_s_t"),
                             ("bounds", "0 <= b_sm1_tm2 and b_sm1_tm2 <= b_s_tm2")],
               "b_sm1_tm1": [("repetition_number_found", "b_s_tm1 < n and n <= b_s_t"),
                             ("bounds", "1 <= b_sm1_tm1 and b_sm1_tm1 <= b_s_tm1")],
               "b_sm2_tm1": [("bounds", "0 <= b_sm2_tm1 and b_sm2_tm1 <= b_sm1_tm1")]},
        loops=[LoopSpec("b_s_tm1 >= n or n > b_s_t", [
            ("domain", "n >= 4 and 2 <= snapshots and snapshots <= n - 2"),
            ("t", "t >= 2"),
            ("betas_increase", "1 <= b_s_tm2 and b_s_tm2 < b_s_tm1 and b_s_tm1 < b_s_t"),
            ("beta_lower_bounds", "b_s_t >= t + 1 and b_s_tm1 >= t"),
            ("below_n", "b_s_tm1 < n")],
            decreases="n - b_s_t + 1")]))

    # F15 ---------------------------------------------------------------- optimal_extra_steps
    # GWX(n, s): the Griewank-Walther optimum of *extra* forward steps as the recurrence (2) of
    # GW2000 (DESIGN.md 6.1), with s clamped to n-1; these axioms are its definition.
    reg.spec_function("GWX", ["int", "int"], "int")
    reg.spec_axioms("GWX", [
        ("GWX.one_step", "forall_int(lambda s: GWX(1, s) == 0)"),
        ("GWX.clamp", "forall_int(lambda n, s: implies(n >= 2 and s > n - 1, GWX(n, s) == GWX(n, n - 1)))"),
        ("GWX.one_unit", "forall_int(lambda n: implies(n >= 2, 2 * GWX(n, 1) == n * (n - 1)))"),
        ("GWX.upper", "forall_int(lambda n, s, i: implies(n >= 3 and 2 <= s and s <= n - 1 and 1 <= i and i < n, "
                      "GWX(n, s) <= i + GWX(i, s) + GWX(n - i, s - 1)))"),
        ("GWX.attained", "forall_int(lambda n, s: implies(n >= 3 and 2 <= s and s <= n - 1, "
                         "exists(1, n, lambda i: GWX(n, s) == i + GWX(i, s) + GWX(n - i, s - 1))))"),
    ])
    reg.add(Contract(
        "multistage.optimal_extra_steps#wrapped", params=[("n", "int"), ("s", "int")],
        raises=[("ValueError", "n <= 0 or s < min(1, n - 1)")], pure=True, returns="int", uf_params=["n", "s"],
        ensures=[("is_GW_optimum", "result == GWX(n, s)")], frame=[], assumed=True,
        note="what callers see through cache_step (s clamped to n-1, memoised): the contract proved on "
             "the body of optimal_extra_steps; observational purity of the cache is F17",
        props=("C05",)))
    reg.alias("optimal_extra_steps", "multistage.optimal_extra_steps#wrapped")
    reg.add(Contract(
        "multistage.optimal_extra_steps", params=[("n", "int"), ("s", "int")],
        requires=[("clamped_by_wrapper", "s <= n - 1")],
        raises=[("ValueError", "n <= 0 or s < min(1, n - 1) or s > n - 1")],
        returns="int", ensures=[("is_GW_optimum", "result == GWX(n, s)")], frame=[],
        locals={"m": ("opt", "int")},
        loops=[LoopSpec("for i in range(1, n)", [
            ("index", "1 <= it_i and it_i <= n"),
            ("domain", "n >= 3 and 2 <= s and s <= n - 1"),
            ("none_before_first", "(m is None) == (it_i == 1)"),
            ("lower_bound_so_far", "implies(m is not None, forall(1, it_i, lambda j: "
                                   "m <= j + GWX(j, s) + GWX(n - j, s - 1)))"),
            ("attained_so_far", "implies(m is not None, exists(1, it_i, lambda j: "
                                "m == j + GWX(j, s) + GWX(n - j, s - 1)))")],
            decreases="n - it_i")],
        props=("C05",), exc_props={"ValueError": ("C05", "C17"), "*": ("C05", "C17")}))
    reg.add(Contract(
        "multistage.optimal_steps_binomial", params=[("n", "int"), ("s", "int")],
        raises=[("ValueError", "n <= 0 or s < min(1, n - 1)")],
        returns="int", ensures=[("total_is_n_plus_GW_optimum", "result == n + GWX(n, s)")], frame=[],
        props=("C05",), exc_props={"ValueError": ("C05", "C17")}))

    # F13 ---------------------------------------------------------------- allocate_snapshots (Tier C)
    reg.add(Contract(
        "multistage.allocate_snapshots",
        params=[("max_n", "int"), ("snapshots_in_ram", "int"), ("snapshots_on_disk", "int"),
                ("write_weight", "real"), ("read_weight", "real"), ("delete_weight", "real"),
                ("trajectory", "str")],
        defaults={"write_weight": "1.0", "read_weight": "1.0", "delete_weight": "0.0",
                  "trajectory": "'maximum'"},
        returns=("tuple", ["int", ("tuplelist", ["storage"])]),
        assumed=True,
        note="singledispatch closures are outside the verified subset; this contract is checked "
             "at run time on the C14 box (bounded), and assumed at its one call site",
        requires=[("clamped", "1 <= snapshots_in_ram and snapshots_in_ram <= max_n - 1 and "
                              "1 <= snapshots_on_disk and snapshots_on_disk <= max_n - 1")],
        ensures=[("length", "len(result[1]) == min(snapshots_in_ram + snapshots_on_disk, max_n - 1)"),
                 ("labels", "forall(0, len(result[1]), lambda i: result[1][i] == StorageType.RAM or "
                            "result[1][i] == StorageType.DISK)"),
                 ("ram_count", "CNT(result[1], len(result[1]), StorageType.RAM) == "
                               "min(snapshots_in_ram, len(result[1]))")],
        frame=[], props=("C14",)))

    # F12 ---------------------------------------------------------------- class + __init__
    reg.add_class(ClassSpec(
        "MultistageCheckpointSchedule", "multistage", bases=("CheckpointSchedule",),
        fields=[("_snapshots_in_ram", "int"), ("_snapshots_on_disk", "int"),
                ("_storage", ("tuplelist", ["storage"])), ("_exhausted", "bool"), ("_trajectory", "str")],
        invariant=[
            ("offline", "self._max_n is not None and self._max_n >= 1"),
            ("counts_nonnegative", "self._snapshots_in_ram >= 0 and self._snapshots_on_disk >= 0"),
            ("counts_consistent", "len(self._storage) == self._snapshots_in_ram + self._snapshots_on_disk"),
            ("units_at_most_steps_minus_one", "len(self._storage) <= max(self._max_n - 1, 0)"),
            ("a_unit_when_more_than_one_step", "implies(self._max_n >= 2, len(self._storage) >= 1)"),
            ("labels", "forall(0, len(self._storage), lambda i: self._storage[i] == StorageType.RAM or "
                       "self._storage[i] == StorageType.DISK)"),
            ("ram_count", "CNT(self._storage, len(self._storage), StorageType.RAM) == self._snapshots_in_ram"),
            ("disk_count", "CNT(self._storage, len(self._storage), StorageType.DISK) == self._snapshots_on_disk"),
            ("trajectory_valid", "self._trajectory == 'maximum' or self._trajectory == 'revolve'"),
        ]))
    reg.add(Contract(
        "multistage.MultistageCheckpointSchedule.__init__", self_class="MultistageCheckpointSchedule",
        params=[("self", "obj"), ("max_n", "int"), ("snapshots_in_ram", "int"), ("snapshots_on_disk", "int"),
                ("trajectory", "str")],
        defaults={"trajectory": "'maximum'"},
        requires=[("counts_nonnegative", "snapshots_in_ram >= 0 and snapshots_on_disk >= 0"),
                  ("a_unit_when_more_than_one_step", "implies(max_n >= 2, snapshots_in_ram + snapshots_on_disk >= 1)"),
                  ("trajectory_valid", VALID_TRAJ)],
        raises=[("ValueError", "max_n < 1")],
        ensures=[("n_zero", "self._n == 0"), ("r_zero", "self._r == 0"),
                 ("offline", "self._max_n is not None and self._max_n == max_n and max_n >= 1"),
                 ("not_exhausted", "not self._exhausted"),
                 ("counts_nonnegative", "self._snapshots_in_ram >= 0 and self._snapshots_on_disk >= 0"),
                 ("counts_consistent", "len(self._storage) == self._snapshots_in_ram + self._snapshots_on_disk"),
                 ("unit_total_depends_on_sum_only",
                  "len(self._storage) == min(min(snapshots_in_ram, max_n - 1) + min(snapshots_on_disk, max_n - 1), "
                  "max(max_n - 1, 0))", ("C14", "C17")),
                 ("units_at_most_steps_minus_one", "len(self._storage) <= max(self._max_n - 1, 0)"),
                 ("a_unit_when_more_than_one_step", "implies(self._max_n >= 2, len(self._storage) >= 1)"),
                 ("labels", "forall(0, len(self._storage), lambda i: self._storage[i] == StorageType.RAM or "
                            "self._storage[i] == StorageType.DISK)"),
                 ("ram_count", "CNT(self._storage, len(self._storage), StorageType.RAM) == self._snapshots_in_ram"),
                 ("disk_count", "CNT(self._storage, len(self._storage), StorageType.DISK) == self._snapshots_on_disk"),
                 ("ram_within_declared", "self._snapshots_in_ram <= snapshots_in_ram", ("C03", "C14")),
                 ("disk_within_declared", "self._snapshots_on_disk <= snapshots_on_disk", ("C03",)),
                 ("trajectory", "self._trajectory == trajectory")],
        frame=["_n", "_r", "_max_n", "_snapshots_in_ram", "_snapshots_on_disk", "_storage", "_exhausted",
               "_trajectory"],
        props=("C17", "C08", "C03", "C14"), exc_props={"ValueError": ("C17",)}))
    reg.add(Contract(
        "multistage.MultistageCheckpointSchedule.is_exhausted", self_class="MultistageCheckpointSchedule",
        params=[("self", "obj")], is_property=True, pure=True, returns="bool",
        ensures=[("flag", "result == self._exhausted")], frame=[], props=("C09", "C15")))

    # C05 potential: WADV(n, u, trajectory) = forward steps of the recurrence induced by the real
    # n_advance: T(1, u) = 1; T(n, u) = j + T(n - j, u - 1) + T(j, u) with j = n_advance(n, u).  The
    # step equation is only ever used through explicit instances (hints): its universal closure would
    # feed the solver's instantiation loop.
    reg.spec_function("WADV", ["int", "int", "int"], "int")
    reg.spec_axioms("WADV", [("WADV.single_step", "forall_int(lambda u, t: WADV(1, u, t) == 1)")])
    reg.axiom_schema("WADV", "WADV.step", ["n", "u", "t"], [],
                     "implies(n >= 2 and u >= 1, WADV(n, u, t) == n_advance(n, u, t) + "
                     "WADV(n - n_advance(n, u, t), u - 1, t) + WADV(n_advance(n, u, t), u, t))", closed=False)
    S_ = "(self._snapshots_in_ram + self._snapshots_on_disk)"
    # (stated over the ghost stack g.cs, which the ghost pushes together with g.P: the potential then
    # does not depend on the coupling with the code's own `snapshots` list)
    K_ = "len(g.cs)"
    T_ = "self._trajectory"
    TOT = "WADV(self._max_n, %s, %s)" % (S_, T_)
    TOP = "g.cs[%s - 1]" % K_
    POT_COUPLING = [
        # (the relation for the top entry is stated on its own: after a push the quantified part then
        # only concerns entries the push did not touch)
        ("potential_stack", "len(g.P) == %s and implies(%s >= 1, g.P[0] == 0) and "
                            "forall(1, %s - 1, lambda i: g.P[i] == g.P[i - 1] + "
                            "WADV(g.cs[i] - g.cs[i - 1], %s - i + 1, %s)) and "
                            "implies(%s >= 2, g.P[%s - 1] == g.P[%s - 2] + "
                            "WADV(g.cs[%s - 1] - g.cs[%s - 2], %s - %s + 2, %s))"
         % (K_, K_, K_, S_, T_, K_, K_, K_, K_, K_, S_, K_, T_))]

    # F14 ---------------------------------------------------------------- _iterator
    COUPLING = [
        ("coupling", "len(g.cs) == len(snapshots) and len(g.cov) == len(snapshots) and "
                     "forall(0, len(snapshots), lambda i: g.cs[i] == snapshots[i])"),
        ("sorted", "forall(0, len(snapshots), lambda i, j: implies(i < j, snapshots[i] < snapshots[j]))"),
        ("at_most_s_units", "len(snapshots) <= len(self._storage)"),
        ("cover_chain", "forall(0, len(snapshots) - 1, lambda i: g.cov[i] >= snapshots[i + 1])"),
        ("first_checkpoint_is_step_0", "implies(len(snapshots) > 0, snapshots[0] == 0)"),
    ]
    OFFLINE = [("ghost_knows", "g.known and g.N == self._max_n and not g.done and not self._exhausted"),
               ("budgets", "self._snapshots_in_ram <= g.decl_ram and self._snapshots_on_disk <= g.decl_disk")]
    reg.add(Contract(
        "multistage.MultistageCheckpointSchedule._iterator", self_class="MultistageCheckpointSchedule",
        params=[("self", "obj")],
        requires=[("fresh_n", "self._n == 0"), ("fresh_r", "self._r == 0"),
                  ("not_exhausted", "not self._exhausted")],
        frame=["_n", "_r", "_exhausted"], props=STREAM, exc_props={"*": ("C17", "C01", "C02")},
        locals={"snapshots": ("list", ["int"])},
        hooks={"module": "ghost", "init": "ms_init", "emit_Forward": "ms_forward",
               "emit_EndForward": "ms_end_forward", "emit_Reverse": "ms_reverse", "emit_Copy": "ms_copy",
               "emit_Move": "ms_move", "emit_EndReverse": "ms_end_reverse", "stop": "ms_stop",
               "ghost_types": {"cs": ("list", ["int"]), "cov": ("list", ["int"]), "P": ("list", ["int"])}},
        # the step equation of the recurrence at the segment each n_advance call splits
        hints={"n1[0]": [("use", "WADV.step", ["self._max_n - n0", "n_snapshots", "self._trajectory"])],
               "n1[1]": [("use", "WADV.step", ["self._max_n - self._r - n0", "n_snapshots", "self._trajectory"])],
               "n1[2]": [("use", "WADV.step", ["self._max_n - self._r - n0", "n_snapshots", "self._trajectory"]),
                         ("segment_splits",
                          "WADV(g.N - g.adj - n0, %(S)s - %(K)s, %(T)s) == (n1 - n0) + "
                          "WADV(g.N - g.adj - n1, %(S)s - %(K)s - 1, %(T)s) + WADV(n1 - n0, %(S)s - %(K)s, %(T)s)"
                          % {"S": S_, "K": K_, "T": T_})]},
        loops=[
            LoopSpec("self._n < self._max_n - 1", OFFLINE + COUPLING + [
                ("phase", "g.phase == 0 and g.adj == 0 and self._r == 0 and g.wlo >= g.whi and not g.work_ics"),
                ("position", "g.fwd_def and g.fwd == self._n and 0 <= self._n and self._n <= max(self._max_n - 1, 0)"),
                ("stack_below_forward", "implies(len(snapshots) == 0, self._n == 0) and "
                                        "implies(len(snapshots) > 0, snapshots[len(snapshots) - 1] < self._n and "
                                        "g.cov[len(snapshots) - 1] == self._n)"),
                ("unit_left_or_at_end", "len(snapshots) < len(self._storage) or self._n >= self._max_n - 1")]
                + POT_COUPLING + [
                ("potential", "g.taken + ((g.P[%(K)s - 1] + WADV(self._n - %(TOP)s, %(S)s - %(K)s + 1, %(T)s)) "
                              "if %(K)s >= 1 else 0) + WADV(self._max_n - self._n, %(S)s - %(K)s, %(T)s) == %(TOT)s"
                 % {"K": K_, "TOP": TOP, "S": S_, "T": T_, "TOT": TOT})],
                decreases="self._max_n - 1 - self._n"),
            LoopSpec("self._r < self._max_n", OFFLINE + COUPLING + [
                ("phase", "g.phase == 1 and g.wlo >= g.whi and not g.work_ics"),
                ("counter", "1 <= self._r and self._r == g.adj and g.adj <= g.N"),
                ("position", "g.fwd_def and g.fwd == self._n"),
                ("stack_vs_adjoint",
                 "(g.N - g.adj == 0 and len(snapshots) == 0) or "
                 "(g.N - g.adj >= 1 and len(snapshots) >= 1 and "
                 "snapshots[len(snapshots) - 1] <= g.N - g.adj - 1 and g.cov[len(snapshots) - 1] >= g.N - g.adj)")]
                + POT_COUPLING + [
                ("potential", "(%(K)s == 0 and g.taken == %(TOT)s) or (%(K)s >= 1 and g.taken + g.P[%(K)s - 1] + "
                              "WADV(g.N - g.adj - %(TOP)s, %(S)s - %(K)s + 1, %(T)s) == %(TOT)s)"
                 % {"K": K_, "TOP": TOP, "S": S_, "T": T_, "TOT": TOT})],
                decreases="self._max_n - self._r"),
            LoopSpec("self._n < self._max_n - self._r - 1", OFFLINE + COUPLING + [
                ("phase", "g.phase == 1 and g.wlo >= g.whi and not g.work_ics"),
                ("counter", "1 <= self._r and self._r == g.adj and g.adj <= g.N - 1"),
                ("position", "g.fwd_def and g.fwd == self._n and self._n <= g.N - g.adj - 1"),
                ("stack_below_forward", "len(snapshots) >= 1 and snapshots[len(snapshots) - 1] < self._n and "
                                        "g.cov[len(snapshots) - 1] >= self._n"),
                ("unit_left_or_at_end", "len(snapshots) < len(self._storage) or self._n == g.N - g.adj - 1")]
                + POT_COUPLING + [
                ("potential", "g.taken + g.P[%(K)s - 1] + WADV(self._n - %(TOP)s, %(S)s - %(K)s + 1, %(T)s) + "
                              "WADV(g.N - g.adj - self._n, %(S)s - %(K)s, %(T)s) == %(TOT)s"
                 % {"K": K_, "TOP": TOP, "S": S_, "T": T_, "TOT": TOT})],
                decreases="self._max_n - self._r - 1 - self._n"),
        ]))

    # F16 ---------------------------------------------------------------- uses_storage_type
    reg.add(Contract(
        "multistage.MultistageCheckpointSchedule.uses_storage_type",
        self_class="MultistageCheckpointSchedule", params=[("self", "obj"), ("storage_type", "storage")],
        returns="optbool",
        ensures=[("ram_reported_if_any_ram_unit",
                  "implies(storage_type == StorageType.RAM and self._snapshots_in_ram > 0, result == True)"),
                 ("disk_reported_if_any_disk_unit",
                  "implies(storage_type == StorageType.DISK and self._snapshots_on_disk > 0, result == True)")],
        frame=[], props=("C11", "C15")))
