"""Lemmas: small functions in the verified subset whose contracts are consequences of other
contracts; the VC engine verifies them like any other function (callee contracts only)."""


def lemma_finalize_rejected_before_first_action(self, k):
    # requires: self._n == 0 and self._max_n is None (a schedule no action of which was requested)
    self.finalize(k)
    assert False, "C10:finalize_accepted_before_first_action"
