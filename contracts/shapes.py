"""Shape of the operation lists the Revolve-family iterator consumes (no solver import: shared by
the sidecar contracts and by the bounded layer, which evaluates the same strings natively on every
operation of every schedule of its boxes)."""

PAIR_TYPES = ("Forward", "Backward", "Read", "Write", "Discard", "Write_Forward", "Discard_Forward")
LEVEL_TYPES = ("Read", "Write", "Discard")
WORK_PAIR = ("Write_Forward", "Discard_Forward")
WORK_SCALAR = ("Write_Forward_memory", "Discard_Forward_memory")
DISK_SCALAR = ("Read_disk", "Write_disk", "Discard_disk")
RAM_SCALAR = ("Read_memory", "Write_memory", "Discard_memory")
SCALAR_TYPES = WORK_SCALAR + DISK_SCALAR + RAM_SCALAR
KNOWN_TYPES = PAIR_TYPES + SCALAR_TYPES


def one_of(var, names):
    return "(" + " or ".join("%s == %r" % (var, n) for n in names) + ")"


WRITE_TYPES = ("Write", "Write_disk", "Write_memory", "Write_Forward", "Write_Forward_memory")
T = "self.type"
SHAPE = [
        ("pair_types_carry_a_pair", "implies(%s, is_pair(self.index))" % one_of(T, PAIR_TYPES)),
        ("single_level_types_carry_a_step", "implies(%s, not is_pair(self.index))" % one_of(T, SCALAR_TYPES)),
        ("storage_level_is_0_or_1", "implies(%s, self.index[0] == 0 or self.index[0] == 1)" % one_of(T, LEVEL_TYPES)),
        ("forward_step_nonnegative", "implies(self.type == 'Forward', self.index[0] >= 0)"),
        ("backward_is_one_step", "implies(self.type == 'Backward', self.index[1] >= 0 and "
                                 "self.index[0] == self.index[1] + 1)"),
        ("checkpoint_step_nonnegative", "implies(%s, self.index[1] >= 0)" % one_of(T, LEVEL_TYPES + WORK_PAIR)),
        ("single_level_step_nonnegative", "implies(%s, scalar(self.index) >= 0)" % one_of(T, SCALAR_TYPES)),
        # adjoint dependencies only ever go to level 0 (WORK in the stream): their transfer is free
        ("dependency_write_level_0", "implies(%s, self.index[0] == 0)" % one_of(T, WORK_PAIR)),
]

# the iterator looks at schedule[i - 1], i.e. at the last operation when i == 0
LIST_SHAPE = "implies(len(schedule) >= 1, not %s)" % one_of("schedule[len(schedule) - 1].type", WRITE_TYPES)
# a checkpoint write materialises in the stream as the storage argument of the Forward that follows it
CHECKPOINT_WRITES = ("Write", "Write_disk", "Write_memory")
LIST_SHAPE_WRITES = ("forall(0, len(schedule), lambda k: implies(%s, k + 1 < len(schedule) and "
                     "schedule[k + 1].type == 'Forward'))" % one_of("schedule[k].type", CHECKPOINT_WRITES))
LIST_SHAPES = [("list_does_not_end_with_a_write", LIST_SHAPE),
               ("every_checkpoint_write_is_followed_by_a_forward", LIST_SHAPE_WRITES)]
