"""Sidecar contracts for checkpoint_schedules/basic_schedules.py (F8-F10)."""
from pyvc.contracts import Contract, ClassSpec, LoopSpec

STREAM = ("C01", "C02", "C03", "C04", "C08", "C09", "C12", "C17", "C18")
FRESH = [("fresh_n", "self._n == 0"), ("fresh_r", "self._r == 0"),
         # finalize() is rejected on a fresh object for every argument (lemma below), so the
         # iterator always starts with max_n unknown
         ("fresh_max_n", "self._max_n is None")]

FWD_PHASE = [
    ("phase", "g.phase == 0 and not g.done and g.passes == 0 and g.adj == 0 and self._r == 0"),
    ("N_positive", "g.N >= 1"),
    ("known_iff_finalised", "(self._max_n is None) == (not g.known)"),
]


def register(reg):
    # ------------------------------------------------------------------ lemma
    reg.add(Contract(
        "ghost.lemmas.lemma_finalize_rejected_before_first_action", self_class="CheckpointSchedule",
        params=[("self", "obj"), ("k", "int")],
        requires=[("fresh_n", "self._n == 0"), ("fresh_max_n", "self._max_n is None")],
        raises=[("ValueError", "True"), ("RuntimeError", "True")], raises_unchanged=True,
        ensures=[], frame=["_n", "_max_n"], props=("C10",), note="lemma"))

    # ------------------------------------------------------------------ SingleMemory (F8)
    reg.add_class(ClassSpec("SingleMemoryStorageSchedule", "basic_schedules",
                            bases=("CheckpointSchedule",), fields=[("_storage", "storage")],
                            invariant=[("storage_is_work", "self._storage == StorageType.WORK")]))
    reg.add(Contract(
        "basic_schedules.SingleMemoryStorageSchedule.__init__",
        self_class="SingleMemoryStorageSchedule", params=[("self", "obj")],
        ensures=[("n_zero", "self._n == 0"), ("r_zero", "self._r == 0"),
                 ("online", "self._max_n is None"), ("storage_is_work", "self._storage == StorageType.WORK")],
        frame=["_n", "_r", "_max_n", "_storage"], props=("C17", "C08")))
    reg.add(Contract(
        "basic_schedules.SingleMemoryStorageSchedule.is_exhausted",
        self_class="SingleMemoryStorageSchedule", params=[("self", "obj")], is_property=True,
        pure=True, returns="bool", ensures=[("never", "result == False")], frame=[], props=("C09", "C15")))
    reg.add(Contract(
        "basic_schedules.SingleMemoryStorageSchedule.uses_storage_type",
        self_class="SingleMemoryStorageSchedule", params=[("self", "obj"), ("storage_type", "storage")],
        returns="bool", ensures=[("only_work", "result == (storage_type == StorageType.WORK)")],
        frame=[], props=("C11", "C15")))
    reg.add(Contract(
        "basic_schedules.SingleMemoryStorageSchedule._iterator",
        self_class="SingleMemoryStorageSchedule", params=[("self", "obj")],
        requires=FRESH, frame=["_n", "_r", "_max_n"], props=STREAM, exc_props={"*": ("C17", "C01", "C02")},
        hooks={"module": "ghost", "init": "sm_init", "emit_Forward": "sm_forward",
               "emit_EndForward": "sm_end_forward", "emit_Reverse": "sm_reverse",
               "emit_EndReverse": "sm_end_reverse", "env_frame": ["_n", "_max_n"]},
        loops=[
            LoopSpec("self._max_n is None", FWD_PHASE + [
                ("sweeping", "implies(not g.known, self._n == g.fwd and g.fwd_def and 0 <= g.fwd and g.fwd < g.N "
                             "and g.wlo == 0 and g.whi == g.fwd and g.told == g.fwd and not g.work_ics)"),
                ("finalised", "implies(g.known, self._max_n == g.N and self._n == g.N and g.fwd_def and "
                              "g.fwd == g.N and g.wlo == 0 and g.whi == g.N)")],
                decreases="0 if g.known else g.N - g.fwd"),
            LoopSpec("True", [
                ("phase", "g.phase == 1 and g.known and not g.done and g.N >= 1"),
                ("position", "self._max_n == g.N and self._n == g.N and g.fwd_def and g.fwd == g.N"),
                ("all_dependencies_kept", "g.wlo == 0 and g.whi == g.N"),
                ("pass_state", "(self._r == 0 and g.adj == 0) or (self._r == g.N and g.adj == g.N)")]),
        ]))

    # ------------------------------------------------------------------ SingleDisk (F9)
    reg.add_class(ClassSpec("SingleDiskStorageSchedule", "basic_schedules",
                            bases=("CheckpointSchedule",),
                            fields=[("_move_data", "bool"), ("_storage", "storage"), ("_exhausted", "bool")],
                            invariant=[("storage_is_disk", "self._storage == StorageType.DISK")]))
    reg.add(Contract(
        "basic_schedules.SingleDiskStorageSchedule.__init__",
        self_class="SingleDiskStorageSchedule", params=[("self", "obj"), ("move_data", "bool")],
        defaults={"move_data": "False"},
        ensures=[("n_zero", "self._n == 0"), ("r_zero", "self._r == 0"), ("online", "self._max_n is None"),
                 ("storage_is_disk", "self._storage == StorageType.DISK"),
                 ("move_flag", "self._move_data == move_data"), ("not_exhausted", "not self._exhausted")],
        frame=["_n", "_r", "_max_n", "_storage", "_move_data", "_exhausted"], props=("C17", "C08", "C09")))
    reg.add(Contract(
        "basic_schedules.SingleDiskStorageSchedule.is_exhausted",
        self_class="SingleDiskStorageSchedule", params=[("self", "obj")], is_property=True, pure=True,
        returns="bool", ensures=[("flag", "result == self._exhausted")], frame=[], props=("C09", "C15")))
    reg.add(Contract(
        "basic_schedules.SingleDiskStorageSchedule.uses_storage_type",
        self_class="SingleDiskStorageSchedule", params=[("self", "obj"), ("storage_type", "storage")],
        returns="bool",
        ensures=[("disk_reported", "implies(storage_type == StorageType.DISK, result)"),
                 ("exact", "result == (storage_type == StorageType.DISK or storage_type == StorageType.WORK)")],
        frame=[], props=("C11", "C15")))
    SD_COMMON = [
        ("phase", "g.phase == 1 and g.known and not g.done and g.N >= 1 and self._max_n == g.N"),
        ("work_empty", "g.wlo >= g.whi and not g.work_ics"),
        ("not_exhausted", "not self._exhausted"),
    ]
    reg.add(Contract(
        "basic_schedules.SingleDiskStorageSchedule._iterator",
        self_class="SingleDiskStorageSchedule", params=[("self", "obj")],
        requires=FRESH + [("not_exhausted", "not self._exhausted")],
        frame=["_n", "_r", "_max_n", "_exhausted"], props=STREAM, exc_props={"*": ("C17", "C01", "C02")},
        hooks={"module": "ghost", "init": "sd_init", "emit_Forward": "sd_forward",
               "emit_EndForward": "sd_end_forward", "emit_Reverse": "sd_reverse",
               "emit_Copy": "sd_copy", "emit_Move": "sd_move",
               "emit_EndReverse": "sd_end_reverse", "stop": "sd_stop", "env_frame": ["_n", "_max_n"]},
        loops=[
            LoopSpec("self._max_n is None", FWD_PHASE + [
                ("not_exhausted", "not self._exhausted"),
                ("work_empty", "g.wlo >= g.whi and not g.work_ics"),
                ("sweeping", "implies(not g.known, self._n == g.fwd and g.fwd_def and g.dhi == g.fwd and "
                             "g.told == g.fwd and 0 <= g.fwd and g.fwd < g.N)"),
                ("finalised", "implies(g.known, self._max_n == g.N and self._n == g.N and g.fwd_def and "
                              "g.fwd == g.N and g.dhi == g.N)")],
                decreases="0 if g.known else g.N - g.fwd"),
            LoopSpec("True", SD_COMMON + [
                ("pass_start", "self._r == 0 and g.adj == 0 and g.dhi == g.N")]),
            LoopSpec("self._r < self._max_n", SD_COMMON + [
                ("counter", "0 <= g.adj and g.adj <= g.N and self._r == g.adj"),
                ("disk_interval", "g.dhi == (g.N - g.adj if self._move_data else g.N)")],
                decreases="g.N - g.adj"),
        ]))

    # ------------------------------------------------------------------ None (F10)
    reg.add_class(ClassSpec("NoneCheckpointSchedule", "basic_schedules", bases=("CheckpointSchedule",),
                            fields=[("_exhausted", "bool")]))
    reg.add(Contract(
        "basic_schedules.NoneCheckpointSchedule.__init__", self_class="NoneCheckpointSchedule",
        params=[("self", "obj")],
        ensures=[("n_zero", "self._n == 0"), ("r_zero", "self._r == 0"), ("online", "self._max_n is None"),
                 ("not_exhausted", "not self._exhausted")],
        frame=["_n", "_r", "_max_n", "_exhausted"], props=("C17", "C08", "C09")))
    reg.add(Contract(
        "basic_schedules.NoneCheckpointSchedule.is_exhausted", self_class="NoneCheckpointSchedule",
        params=[("self", "obj")], is_property=True, pure=True, returns="bool",
        ensures=[("flag", "result == self._exhausted")], frame=[], props=("C09", "C15")))
    reg.add(Contract(
        "basic_schedules.NoneCheckpointSchedule.uses_storage_type", self_class="NoneCheckpointSchedule",
        params=[("self", "obj"), ("storage_type", "storage")], returns="bool",
        ensures=[("never", "result == False")], frame=[], props=("C11", "C15")))
    reg.add(Contract(
        "basic_schedules.NoneCheckpointSchedule._iterator", self_class="NoneCheckpointSchedule",
        params=[("self", "obj")], requires=FRESH + [("not_exhausted", "not self._exhausted")],
        frame=["_n", "_r", "_max_n", "_exhausted"], props=STREAM, exc_props={"*": ("C17", "C01", "C02")},
        hooks={"module": "ghost", "init": "nn_init", "emit_Forward": "nn_forward",
               "emit_EndForward": "nn_end_forward", "stop": "nn_stop", "env_frame": ["_n", "_max_n"]},
        loops=[
            LoopSpec("self._max_n is None", FWD_PHASE + [
                ("not_exhausted", "not self._exhausted"),
                ("sweeping", "implies(not g.known, self._n == g.fwd and g.fwd_def and 0 <= g.fwd and "
                             "g.fwd < g.N and g.told == g.fwd)"),
                ("finalised", "implies(g.known, self._max_n == g.N and self._n == g.N and g.fwd_def and "
                              "g.fwd == g.N)")],
                decreases="0 if g.known else g.N - g.fwd"),
        ]))
