"""Native definitions of the ghost intrinsics (the VC engine interprets the same names
symbolically).  Ghost code is ordinary Python in the verified subset, so the bounded layer
can run it next to the real schedule objects."""
import sys

MAXSIZE = sys.maxsize


class AssumeFailed(Exception):
    pass


def assume(c):
    if not c:
        raise AssumeFailed()


def implies(a, b):
    return (not a) or b


def forall(lo, hi, f):
    return all(f(i) for i in range(lo, hi))


def exists(lo, hi, f):
    return any(f(i) for i in range(lo, hi))
