"""Sidecar contracts for hrevolve_sequences/disk_revolve.py (F42, F43)."""
from pyvc.contracts import Contract, ClassSpec, LoopSpec

ARGS = "cm, l, uf, ub, rd, wd"


def register(reg):
    # OPTINF(cm, l, uf, ub, rd, wd): Disk-Revolve optimum with unbounded disk, every disk checkpoint
    # read once (Aupy et al. 2016, Thm 3.15) as its recurrence - definitional axioms
    reg.spec_function("OPTINF", ["int", "int", "real", "real", "real", "real"], "real")
    reg.spec_axioms("OPTINF", [
        ("OPTINF.no_step", "forall_int(lambda cm: forall_real(lambda uf, ub, rd, wd: "
                           "OPTINF(cm, 0, uf, ub, rd, wd) == ub))"),
        ("OPTINF.one_step", "forall_int(lambda cm: forall_real(lambda uf, ub, rd, wd: implies(cm >= 1, "
                            "OPTINF(cm, 1, uf, ub, rd, wd) == uf + 2 * ub)))"),
        ("OPTINF.memory_only", "forall_int(lambda cm, l: forall_real(lambda uf, ub, rd, wd: implies(cm >= 1 and l >= 2, "
                               "OPTINF(cm, l, uf, ub, rd, wd) <= OPT0(cm, l, uf, ub))))"),
        ("OPTINF.attained", "forall_int(lambda cm, l: forall_real(lambda uf, ub, rd, wd: implies(cm >= 1 and l >= 2, "
                            "OPTINF(cm, l, uf, ub, rd, wd) == OPT0(cm, l, uf, ub) or "
                            "exists(0, l - 1, lambda q: OPTINF(cm, l, uf, ub, rd, wd) == wd + (q + 1) * uf + "
                            "OPTINF(cm, l - q - 1, uf, ub, rd, wd) + rd + OPT0(cm, q, uf, ub)))))"),
    ])
    reg.axiom_schema("OPTINF", "OPTINF.upper", ["cm", "p", "q"], ["uf", "ub", "rd", "wd"],
                     "implies(cm >= 1 and p >= 1 and q >= 0, OPTINF(cm, p + q + 1, uf, ub, rd, wd) <= "
                     "wd + (q + 1) * uf + OPTINF(cm, p, uf, ub, rd, wd) + rd + OPT0(cm, q, uf, ub))")
    # ARGINF names a minimising q when the disk option is strictly better (Skolem function of the
    # `attained` axiom, for explicit instantiation at hint sites)
    reg.spec_function("ARGINF", ["int", "int", "real", "real", "real", "real"], "int")
    reg.axiom_schema("OPTINF", "OPTINF.attained_at", ["cm", "l"], ["uf", "ub", "rd", "wd"],
                     "implies(cm >= 1 and l >= 2 and OPTINF(cm, l, uf, ub, rd, wd) < OPT0(cm, l, uf, ub), "
                     "0 <= ARGINF(cm, l, uf, ub, rd, wd) and ARGINF(cm, l, uf, ub, rd, wd) < l - 1 and "
                     "OPTINF(cm, l, uf, ub, rd, wd) == wd + (ARGINF(cm, l, uf, ub, rd, wd) + 1) * uf + "
                     "OPTINF(cm, l - ARGINF(cm, l, uf, ub, rd, wd) - 1, uf, ub, rd, wd) + rd + "
                     "OPT0(cm, ARGINF(cm, l, uf, ub, rd, wd), uf, ub))")
    TABLE0 = ("implies(opt_0 is not None, len(opt_0) >= cm + 1 and forall(1, cm + 1, lambda m: "
              "len(opt_0[m]) >= %s + 1 and forall(0, %s + 1, lambda k: opt_0[m][k] == OPT0(m, k, %s, %s))))")
    reg.add(Contract(
        "seq.disk_revolve.get_opt_inf_table",
        params=[("lmax", "int"), ("cm", "int"), ("uf", "real"), ("ub", "real"), ("rd", "real"), ("wd", "real"),
                ("one_read_disk", "bool"), ("print_table", "none"), ("opt_0", ("opt", ("objlist", "Table"))),
                ("opt_1d", "none")],
        defaults={"print_table": "None", "opt_0": "None", "opt_1d": "None"},
        requires=[("domain", "lmax >= 0 and cm >= 1 and one_read_disk"),
                  ("table_if_given", TABLE0 % ("lmax", "lmax", "uf", "ub"))],
        returns=("obj", "Table"),
        ensures=[("length", "len(result.content) >= lmax + 1"),
                 ("table_invariant", "result.print_table == 0 and result.size == len(result.content)"),
                 ("entries_are_the_disk_revolve_optimum",
                  "forall(0, lmax + 1, lambda l: result.content[l] == OPTINF(cm, l, uf, ub, rd, wd))")],
        frame=[], props=("C07", "C17"), exc_props={"*": ("C07", "C17")},
        globals={"__name__": "'checkpoint_schedules.hrevolve_sequences.disk_revolve'"},
        hints={"min_aux": [
            ("use", "OPTINF.upper", ["cm", "l - min_aux__argmin - 1", "min_aux__argmin", "uf", "ub", "rd", "wd"]),
            ("candidate_not_below_optimum", "min_aux >= OPTINF(cm, l, uf, ub, rd, wd)"),
            ("min_aux_bounds_every_candidate",
             "forall(0, l - 1, lambda q: min_aux <= wd + (q + 1) * uf + OPTINF(cm, l - q - 1, uf, ub, rd, wd) + "
             "rd + OPT0(cm, q, uf, ub))"),
            ("optimum_is_memory_only_or_candidate",
             "OPTINF(cm, l, uf, ub, rd, wd) == OPT0(cm, l, uf, ub) or min_aux <= OPTINF(cm, l, uf, ub, rd, wd)"),
            ("value_to_append_is_the_optimum",
             "min(OPT0(cm, l, uf, ub), min_aux) == OPTINF(cm, l, uf, ub, rd, wd)")]},
        loops=[LoopSpec("for l in range(2, lmax + 1)", [
            ("index", "2 <= it_l and it_l <= max(lmax + 1, 2)"),
            ("table", "opt_0 is not None and len(opt_0) >= cm + 1 and forall(1, cm + 1, lambda m: "
                      "len(opt_0[m]) >= lmax + 1 and forall(0, lmax + 1, lambda k: opt_0[m][k] == OPT0(m, k, uf, ub)))"),
            ("filled", "len(opt_inf.content) == it_l and forall(0, it_l, lambda k: "
                       "opt_inf.content[k] == OPTINF(cm, k, uf, ub, rd, wd))"),
            ("table_invariant", "opt_inf.print_table == 0 and opt_inf.size == len(opt_inf.content)")],
            decreases="max(lmax + 1, 2) - it_l")]))

    reg.add(Contract(
        "seq.disk_revolve.disk_revolve",
        params=[("l", "int"), ("cm", "int"), ("rd", "real"), ("wd", "real"), ("fwd_cost", "real"),
                ("bwd_cost", "real"), ("opt_0", ("opt", ("objlist", "Table"))), ("opt_1d", "none"),
                ("opt_inf", ("opt", ("obj", "Table")))],
        defaults={"opt_0": "None", "opt_1d": "None", "opt_inf": "None"},
        requires=[("domain", "l >= 0 and cm >= 1"),
                  ("table_if_given", TABLE0 % ("l", "l", "fwd_cost", "bwd_cost")),
                  ("disk_table_if_given",
                   "implies(opt_inf is not None, opt_inf.print_table == 0 and len(opt_inf.content) >= l + 1 and "
                   "forall(0, l + 1, lambda k: opt_inf.content[k] == OPTINF(cm, k, fwd_cost, bwd_cost, rd, wd)))")],
        returns=("obj", "Sequence"),
        ensures=[("makespan_is_disk_revolve_optimum",
                  "result.makespan == OPTINF(cm, l, fwd_cost, bwd_cost, rd, wd) + (l + 1) * fwd_cost")],
        frame=[], recursion_measure="l", props=("C07",), exc_props={"*": ("C07", "C17")},
        hints={"list_mem": [
            ("every_list_entry_is_a_candidate",
             "forall(0, l - 1, lambda q: list_mem[q] == wd + (q + 1) * fwd_cost + "
             "OPTINF(cm, l - q - 1, fwd_cost, bwd_cost, rd, wd) + rd + OPT0(cm, q, fwd_cost, bwd_cost))")],
            "return": [
            ("use", "OPTINF.attained_at", ["cm", "l", "fwd_cost", "bwd_cost", "rd", "wd"]),
            ("minimiser_is_a_list_entry",
             "implies(l >= 2 and OPTINF(cm, l, fwd_cost, bwd_cost, rd, wd) < OPT0(cm, l, fwd_cost, bwd_cost), "
             "list_mem[ARGINF(cm, l, fwd_cost, bwd_cost, rd, wd)] == wd + (ARGINF(cm, l, fwd_cost, bwd_cost, rd, wd) + 1) * fwd_cost + OPTINF(cm, l - ARGINF(cm, l, fwd_cost, bwd_cost, rd, wd) - 1, fwd_cost, bwd_cost, rd, wd) + rd + "
             "OPT0(cm, ARGINF(cm, l, fwd_cost, bwd_cost, rd, wd), fwd_cost, bwd_cost))")],
            "return[4]": [      # the memory-only branch: no candidate beats OPT0
            ("no_candidate_beats_memory_only",
             "forall(0, l - 1, lambda q: list_mem[q] >= OPT0(cm, l, fwd_cost, bwd_cost))"),
            ("disk_optimum_is_memory_only_optimum",
             "OPTINF(cm, l, fwd_cost, bwd_cost, rd, wd) == OPT0(cm, l, fwd_cost, bwd_cost)")],
            "jmin": [
            ("chosen_split_is_a_list_entry",
             "list_mem[jmin - 1] == wd + jmin * fwd_cost + OPTINF(cm, l - jmin, fwd_cost, bwd_cost, rd, wd) + rd + "
             "OPT0(cm, jmin - 1, fwd_cost, bwd_cost)"),
            ("use", "OPTINF.upper", ["cm", "l - jmin", "jmin - 1", "fwd_cost", "bwd_cost", "rd", "wd"]),
            ("split_not_below_optimum", "list_mem[jmin - 1] >= OPTINF(cm, l, fwd_cost, bwd_cost, rd, wd)"),
            ("disk_beats_memory_only", "list_mem[jmin - 1] < OPT0(cm, l, fwd_cost, bwd_cost)"),
            ("optimum_beats_memory_only", "OPTINF(cm, l, fwd_cost, bwd_cost, rd, wd) < OPT0(cm, l, fwd_cost, bwd_cost)"),
            ("use", "OPTINF.attained_at", ["cm", "l", "fwd_cost", "bwd_cost", "rd", "wd"]),
            ("minimiser_is_a_list_entry",
             "list_mem[ARGINF(cm, l, fwd_cost, bwd_cost, rd, wd)] == wd + (ARGINF(cm, l, fwd_cost, bwd_cost, rd, wd) + 1) * fwd_cost + OPTINF(cm, l - ARGINF(cm, l, fwd_cost, bwd_cost, rd, wd) - 1, fwd_cost, bwd_cost, rd, wd) + rd + "
             "OPT0(cm, ARGINF(cm, l, fwd_cost, bwd_cost, rd, wd), fwd_cost, bwd_cost)"),
            ("chosen_split_not_above_minimiser", "list_mem[jmin - 1] <= list_mem[ARGINF(cm, l, fwd_cost, bwd_cost, rd, wd)]"),
            ("split_not_above_optimum", "list_mem[jmin - 1] <= OPTINF(cm, l, fwd_cost, bwd_cost, rd, wd)")]}))
