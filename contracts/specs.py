"""Spec functions (DESIGN.md section 6): oracles taken from the property
statements and the cited papers, never from the repository code.

Exact arithmetic (int / fractions.Fraction).  Pure Python, importable under
both interpreters.
"""
from fractions import Fraction
from functools import lru_cache
from math import comb
import sys

sys.setrecursionlimit(100000)


def F(x):
    """Exact rational of a cost given as int/float/str."""
    if isinstance(x, Fraction):
        return x
    if isinstance(x, int):
        return Fraction(x)
    return Fraction(str(x))


# ---------------------------------------------------------------- 6.1 GW2000
@lru_cache(maxsize=None)
def gw_extra(n, s):
    """Minimal number of *extra* forward steps to reverse n steps with s
    restart checkpoints (one of them holding step 0) and one step of adjoint
    dependencies.  Griewank & Walther (2000), eq. (2) as a recurrence."""
    if n < 1 or (n > 1 and s < 1):
        raise ValueError((n, s))
    if n == 1:
        return 0
    s = min(s, n - 1)
    if s == 1:
        return n * (n - 1) // 2
    return min(i + gw_extra(i, s) + gw_extra(n - i, s - 1) for i in range(1, n))


def gw_extra_closed(n, s):
    """Closed form GW2000 Prop. 1: t*n - beta(s+1, t-1), beta(s,t)=C(s+t,s),
    with t the unique integer with beta(s,t-1) < n <= beta(s,t)."""
    if n == 1:
        return 0
    s = min(s, n - 1)
    t = 0
    while comb(s + t, s) < n:
        t += 1
    # GW's t(l,c) does not count the n forward steps that are each combined with
    # a reversal, i.e. it is exactly the number of *extra* steps
    return t * n - comb(s + t, t - 1)


def binomial_total(n, s):
    return n + gw_extra(n, s)


def T_adv_factory(n_advance, trajectory):
    """Step count induced by a given advance function j = n_advance(n, u):
    T(1,u)=1; T(n,u)= j + T(n-j,u-1) + T(j,u)."""
    memo = {}

    def T(n, u):
        if n == 1:
            return 1
        u = min(u, n - 1)
        key = (n, u)
        if key in memo:
            return memo[key]
        j = n_advance(n, u, trajectory=trajectory)
        if not (1 <= j <= n - 1):
            raise AssertionError(("n_advance out of range", n, u, j))
        if u == 1 and j != n - 1:
            raise AssertionError(("one unit left but not advancing to the end", n, u, j))
        val = j + T(n - j, u - 1) + T(j, u)
        memo[key] = val
        return val
    return T


# ---------------------------------------------------------------- 6.2 mixed
@lru_cache(maxsize=None)
def mixed_opt(n, s):
    """Maddison (2024): minimal forward steps when each of s units holds either
    a restart checkpoint or one step of adjoint dependencies."""
    if n < 1 or s < min(1, n - 1):
        raise ValueError((n, s))
    s = min(s, n - 1)
    if n <= s + 1:
        return n
    if s == 1:
        return n * (n + 1) // 2 - 1
    best = 1 + mixed_opt(n - 1, s - 1)
    for i in range(2, n):
        c = i + mixed_opt(i, s) + mixed_opt(n - i, s - 1)
        if c < best:
            best = c
    return best


@lru_cache(maxsize=None)
def mixed_step(n, s):
    """(kind, length, cost) with the documented tie-breaking: the largest i
    attaining the WRITE_ICS minimum; WRITE_ADJ_DEPS only if strictly better.
    kind: 2 FORWARD_REVERSE, 3 WRITE_ADJ_DEPS, 4 WRITE_ICS (StepType values)."""
    if n < 1 or s < min(1, n - 1):
        raise ValueError((n, s))
    s = min(s, n - 1)
    if n == 1:
        return (2, 1, 1)
    if n <= s + 1:
        return (3, 1, n)
    if s == 1:
        return (4, n - 1, n * (n + 1) // 2 - 1)
    best = None
    for i in range(2, n):
        c = i + mixed_opt(i, s) + mixed_opt(n - i, s - 1)
        if best is None or c <= best[2]:
            best = (4, i, c)
    c = 1 + mixed_opt(n - 1, s - 1)
    if c < best[2]:
        best = (3, 1, c)
    return best


# ---------------------------------------------------------------- 6.3 H-Revolve family
class CostTables:
    """Recurrences of Herrmann & Pallez (2020) sec. 3.1 (two levels: 0 RAM,
    1 DISK, w0 = r0 = 0), Aupy et al. (2016) Thm 3.15 (Disk-Revolve, each disk
    checkpoint read once) and the memory-only Revolve table, in uf, ub, wd, rd.
    l = number of forward steps of the AC graph (= max_n - 1)."""

    def __init__(self, uf, ub, wd, rd):
        self.uf, self.ub, self.wd, self.rd = F(uf), F(ub), F(wd), F(rd)
        self._o0 = {}
        self._hp = {}
        self._h = {}
        self._inf = {}

    # memory-only optimum with m slots (m >= 1 when l >= 1)
    def opt0(self, m, l):
        key = (m, l)
        if key in self._o0:
            return self._o0[key]
        uf, ub = self.uf, self.ub
        if l == 0:
            v = ub
        elif m <= 0:
            v = None    # infeasible
        elif l == 1:
            v = uf + 2 * ub
        elif m == 1:
            v = (l + 1) * ub + Fraction(l * (l + 1), 2) * uf
        else:
            v = min(j * uf + self.opt0(m - 1, l - j) + self.opt0(m, j - 1)
                    for j in range(1, l))
        self._o0[key] = v
        return v

    # Disk-Revolve optimum (unbounded disk, each disk checkpoint read once)
    def optinf(self, cm, l):
        key = (cm, l)
        if key in self._inf:
            return self._inf[key]
        uf, ub, wd, rd = self.uf, self.ub, self.wd, self.rd
        if l == 0:
            v = ub
        elif l == 1:
            v = uf + 2 * ub if cm >= 1 else wd + uf + 2 * ub + rd
        else:
            v = min([self.opt0(cm, l)] +
                    [wd + j * uf + self.optinf(cm, l - j) + rd + self.opt0(cm, j - 1)
                     for j in range(1, l)])
        self._inf[key] = v
        return v

    # hierarchical optimum, level k in {0,1}, c = (c0, c1); inf = None
    def hoptp(self, k, l, m, c):
        key = (k, l, m, c)
        if key in self._hp:
            return self._hp[key]
        uf, ub, wd, rd = self.uf, self.ub, self.wd, self.rd
        INF = None
        if l == 0:
            v = ub
        elif k == 0:
            if m == 0:
                v = INF
            elif l == 1:
                v = uf + 2 * ub
            elif m == 1:
                v = (l + 1) * ub + Fraction(l * (l + 1), 2) * uf
            else:
                cands = [self.hoptp(0, l, 1, c)]
                for j in range(1, l):
                    a = self.hopt(0, l - j, m - 1, c)
                    b = self.hoptp(0, j - 1, m, c)
                    if a is not None and b is not None:
                        cands.append(j * uf + a + b)
                v = min(cands)
        else:
            if m == 0:
                v = INF
            else:
                cands = []
                low = self.hopt(0, l, c[0], c)
                if low is not None:
                    cands.append(low)
                for j in range(1, l):
                    a = self.hopt(1, l - j, m - 1, c)
                    b = self.hoptp(1, j - 1, m, c)
                    if a is not None and b is not None:
                        cands.append(j * uf + a + rd + b)
                v = min(cands) if cands else INF
        self._hp[key] = v
        return v

    def hopt(self, k, l, m, c):
        key = (k, l, m, c)
        if key in self._h:
            return self._h[key]
        if l == 0:
            v = self.ub
        elif k == 0:
            v = self.hoptp(0, l, m, c)       # w0 = 0
        else:
            cands = []
            low = self.hopt(0, l, c[0], c)
            if low is not None:
                cands.append(low)
            if m >= 1:
                p = self.hoptp(1, l, m, c)
                if p is not None:
                    cands.append(self.wd + p)
            v = min(cands) if cands else None
        self._h[key] = v
        return v

    # stream-level optimum: every reversed step needs its own Forward(i,i+1)
    def stream_revolve(self, n, s):
        return self.opt0(s, n - 1) + n * self.uf

    def stream_disk_revolve(self, n, s):
        return self.optinf(s, n - 1) + n * self.uf

    def stream_hrevolve(self, n, s, d):
        return self.hopt(1, n - 1, d, (s, d)) + n * self.uf


# ---------------------------------------------------------------- 6.4 period
def period(cm, uf, wd, rd):
    """Aupy & Herrmann (2017): beta(cm, t*) with t* = min{t >= 0 :
    beta(cm+1, t) > (wd+rd)/uf}; beta(x,y) = C(x+y, x)."""
    X = (F(wd) + F(rd)) / F(uf)
    t = 0
    while comb(cm + 1 + t, cm + 1) <= X:
        t += 1
    return comb(cm + t, cm)
