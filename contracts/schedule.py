"""Sidecar contracts for checkpoint_schedules/schedule.py (F2-F7 of DESIGN.md section 7)."""
from pyvc.contracts import Contract, ClassSpec, LoopSpec


def register(reg):
    reg.add_class(ClassSpec(
        "CheckpointSchedule", "schedule", bases=(),
        fields=[("_n", "int"), ("_r", "int"), ("_max_n", "optint"), ("_iter", "?int")],
        invariant=[]))

    # F4 ----------------------------------------------------------------- __init__
    reg.add(Contract(
        "schedule.CheckpointSchedule.__init__", self_class="CheckpointSchedule",
        params=[("self", "obj"), ("max_n", "optint")], defaults={"max_n": "None"},
        raises=[("ValueError", "max_n is not None and max_n < 1")],
        ensures=[("n_zero", "self._n == 0"), ("r_zero", "self._r == 0"),
                 ("max_n_stored", "self._max_n == max_n")],
        frame=["_n", "_r", "_max_n"],
        props=("C17", "C08"), exc_props={"ValueError": ("C17",)}))

    # F6 ----------------------------------------------------------------- finalize
    # decision table of C10 (DESIGN.md A.1), for all integers
    reg.add(Contract(
        "schedule.CheckpointSchedule.finalize", self_class="CheckpointSchedule",
        params=[("self", "obj"), ("n", "int")],
        raises=[("ValueError", "n < 1"),
                ("RuntimeError", "n >= 1 and ((self._max_n is None and self._n < n) or "
                                 "(self._max_n is not None and (self._n != n or self._max_n != n)))")],
        raises_unchanged=True,
        ensures=[("accepted_sets_n", "self._n == n"),
                 ("accepted_sets_max_n", "self._max_n == n"),
                 ("accepted_only_if_told",
                  "implies(old(self._max_n) is None, old(self._n) >= n)"),
                 ("noop_if_known",
                  "implies(old(self._max_n) is not None, old(self._n) == n and old(self._max_n) == n)"),
                 ("r_untouched", "self._r == old(self._r)")],
        frame=["_n", "_max_n"],
        # (C08 too: after a rejected call max_n must still be "unknown or the true number of steps")
        props=("C10", "C08"), exc_props={"ValueError": ("C10", "C08"), "RuntimeError": ("C10", "C08"),
                                         "*": ("C10", "C08")}))

    # F7 ----------------------------------------------------------------- observers
    for name, fld, ty in (("n", "_n", "int"), ("r", "_r", "int"), ("max_n", "_max_n", "optint")):
        reg.add(Contract(
            "schedule.CheckpointSchedule." + name, self_class="CheckpointSchedule",
            params=[("self", "obj")], is_property=True, pure=True, returns=ty,
            ensures=[("returns_field", "result == self.%s" % fld)],
            frame=[], props=("C08", "C15")))
    reg.add(Contract(
        "schedule.CheckpointSchedule.is_running", self_class="CheckpointSchedule",
        params=[("self", "obj")], is_property=True, pure=True, returns="bool",
        ensures=[("true_iff_generator_created", "result == hasattr(self, '_iter')")],
        frame=[], props=("C09", "C15")))

    # F5 ----------------------------------------------------------------- the _iterator wrapper
    # installed by __init_subclass__: one generator per object, the same one on every call.
    # cls_iter(self) creates the generator; it is modelled as an opaque identity NEWGEN(self).
    reg.spec_function("NEWGEN", ["int"], "int")
    reg.add(Contract(
        "schedule.cls_iter", params=[("self", "obj")], pure=True, returns="int", uf_params=None,
        assumed=True, note="calling a generator function returns a new generator object and runs "
                           "none of its body (CPython semantics, A7)",
        ensures=[], frame=[], props=("C09",)))
    reg.add(Contract(
        "schedule.CheckpointSchedule.__init_subclass__.<locals>._iterator",
        self_class="CheckpointSchedule", params=[("self", "obj")], returns="int",
        ensures=[("generator_cached", "hasattr(self, '_iter')"),
                 ("same_object_every_call",
                  "implies(old(hasattr(self, '_iter')), result == old(self._iter) and self._iter == old(self._iter))"),
                 ("returns_cached", "result == self._iter"),
                 ("counters_untouched", "self._n == old(self._n) and self._r == old(self._r)")],
        frame=["_iter"], props=("C09", "C15")))

    # F2 ----------------------------------------------------------------- CheckpointAction.__eq__
    reg.add_class(ClassSpec("AnyObject", "schedule", fields=[("__type__", "int"), ("args", "?int")]))
    reg.add(Contract(
        "schedule.CheckpointAction.__eq__", self_class="AnyObject",
        params=[("self", "obj"), ("other", ("obj", "AnyObject"))],
        requires=[("self_is_action", "1 <= self.__type__ <= 6 and hasattr(self, 'args')"),
                  ("actions_have_args", "implies(1 <= other.__type__ <= 6, hasattr(other, 'args'))")],
        returns="bool",
        ensures=[("equal_iff_same_kind_and_args",
                  "result == (self.__type__ == other.__type__ and self.args == other.args)")],
        frame=[], props=("C18",), exc_props={"*": ("C18",)}))

    # F3 ----------------------------------------------------------------- Forward / Reverse containers
    for cls in ("Forward", "Reverse"):
        reg.add_class(ClassSpec(cls, "schedule", fields=[("a0", "int"), ("a1", "int")]))
    # args[0], args[1] are (n0, n1) for Forward and (n1, n0) for Reverse: the property
    # contracts pin that down, __len__/__contains__ are then proved against them.
    reg.add_class(ClassSpec("ActionArgs", "schedule", fields=[("args", ("tuple", ["int", "int"]))]))
    ARGS = {"Forward": ["int", "int", "bool", "bool", "storage"], "Reverse": ["int", "int", "bool"],
            "Copy": ["int", "storage", "storage"], "Move": ["int", "storage", "storage"]}
    # the remaining accessors: each returns its own component of args (C18: value objects)
    for cls, comps in (("Forward", (("write_ics", 2, "bool"), ("write_adj_deps", 3, "bool"), ("storage", 4, "storage"))),
                       ("Reverse", (("clear_adj_deps", 2, "bool"),)),
                       ("Copy", (("n", 0, "int"), ("from_storage", 1, "storage"), ("to_storage", 2, "storage"))),
                       ("Move", (("n", 0, "int"), ("from_storage", 1, "storage"), ("to_storage", 2, "storage")))):
        reg.classes[cls] = ClassSpec(cls, "schedule", fields=[("args", ("tuple", ARGS[cls]))])
        for name, k, ty in comps:
            reg.add(Contract("schedule.%s.%s" % (cls, name), self_class=cls, params=[("self", "obj")],
                             is_property=True, pure=True, returns=ty,
                             ensures=[("%s_is_arg" % name, "result == self.args[%d]" % k)], frame=[],
                             props=("C18",)))
    for cls, i0, i1 in (("Forward", 0, 1), ("Reverse", 1, 0)):
        reg.classes[cls] = ClassSpec(cls, "schedule", fields=[("args", ("tuple", ARGS[cls]))])
        reg.add(Contract("schedule.%s.n0" % cls, self_class=cls, params=[("self", "obj")],
                         is_property=True, pure=True, returns="int",
                         ensures=[("n0_is_arg", "result == self.args[%d]" % i0)], frame=[], props=("C18",)))
        reg.add(Contract("schedule.%s.n1" % cls, self_class=cls, params=[("self", "obj")],
                         is_property=True, pure=True, returns="int",
                         ensures=[("n1_is_arg", "result == self.args[%d]" % i1)], frame=[], props=("C18",)))
        reg.add(Contract("schedule.%s.__len__" % cls, self_class=cls, params=[("self", "obj")],
                         returns="int", ensures=[("len_is_steps_covered", "result == self.args[%d] - self.args[%d]" % (i1, i0))],
                         frame=[], props=("C18",)))
        # __iter__: exactly the steps covered, ascending for Forward, descending for Reverse
        # (the enumeration order of range() itself is CPython semantics)
        reg.add(Contract("schedule.%s.__iter__" % cls, self_class=cls, params=[("self", "obj")],
                         yields_range=(("self.args[%d]" % i0, "self.args[%d]" % i1, 1) if cls == "Forward"
                                       else ("self.args[%d] - 1" % i1, "self.args[%d] - 1" % i0, -1)),
                         frame=[], props=("C18",)))
        reg.add(Contract("schedule.%s.__contains__" % cls, self_class=cls,
                         params=[("self", "obj"), ("step", "int")], returns="bool",
                         ensures=[("contains_iff_covered",
                                   "result == (self.args[%d] <= step and step < self.args[%d])" % (i0, i1))],
                         frame=[], props=("C18",)))
