"""Sidecar contracts for checkpoint_schedules/mixed.py (F17-F21)."""
from pyvc.contracts import Contract, ClassSpec, LoopSpec

STREAM = ("C01", "C02", "C03", "C04", "C06", "C08", "C09", "C12", "C16", "C17", "C18")
FR, WAD, WICS = 2, 3, 4        # StepType.FORWARD_REVERSE / WRITE_ADJ_DEPS / WRITE_ICS

# shape contract M of the planner (DESIGN.md A.6), as seen through cache_step's wrapper
SHAPE = [
    ("kind", "result[0] == 2 or result[0] == 3 or result[0] == 4"),
    ("single_step_is_forward_reverse", "(result[0] == 2) == (n == 1)"),
    ("forward_reverse_length", "implies(result[0] == 2, result[1] == 1)"),
    ("adj_deps_length_one", "implies(result[0] == 3, result[1] == 1)"),
    ("ics_length", "implies(result[0] == 4, 2 <= result[1] and result[1] <= n - 1)"),
    ("enough_units_store_dependencies", "implies(n >= 2 and min(s, n - 1) >= n - 1, result[0] == 3)"),
    ("cost_is_mixed_optimum", "result[2] == MIXOPT(n, s)"),
    ("cost_bounds", "result[2] >= 1 and 2 * result[2] <= n * (n + 1)"),
    ("cost_of_chosen_step", "implies(result[0] == 4, result[2] == result[1] + MIXOPT(result[1], s) + "
                            "MIXOPT(n - result[1], min(s, n - 1) - 1)) and "
                            "implies(result[0] == 3 and n >= 2, result[2] == 1 + MIXOPT(n - 1, min(s, n - 1) - 1))"),
    ("adj_deps_only_if_strictly_better",
     "implies(result[0] == 3 and min(s, n - 1) <= n - 2, forall(2, n, lambda j: "
     "result[2] < j + MIXOPT(j, s) + MIXOPT(n - j, min(s, n - 1) - 1)))"),
    ("largest_minimiser", "implies(result[0] == 4, forall(2, n, lambda j: implies(j > result[1], "
                          "result[2] < j + MIXOPT(j, s) + MIXOPT(n - j, min(s, n - 1) - 1))))"),
]
PLANNER_RAISES = [("ValueError", "n <= 0 or s < min(1, n - 1)")]


def register(reg):
    register_mixed(reg)
    register_tabulation(reg)


def register_mixed(reg):
    # MIXOPT(n, s): the mixed optimum as the recurrence of Maddison (2024) (DESIGN.md 6.2), s clamped
    # to n-1; MIXC(n, s, i) is the cost of a first restart segment of length i.
    reg.spec_function("MIXOPT", ["int", "int"], "int")
    reg.spec_axioms("MIXOPT", [
        ("MIXOPT.clamp", "forall_int(lambda n, s: implies(n >= 1 and s > n - 1, MIXOPT(n, s) == MIXOPT(n, n - 1)))"),
        ("MIXOPT.enough_units", "forall_int(lambda n, s: implies(n >= 1 and s >= n - 1, MIXOPT(n, s) == n))"),
        ("MIXOPT.one_unit", "forall_int(lambda n: implies(n >= 3, 2 * MIXOPT(n, 1) == n * (n + 1) - 2))"),
        ("MIXOPT.upper_adj", "forall_int(lambda n, s: implies(2 <= s and s <= n - 2, "
                             "MIXOPT(n, s) <= 1 + MIXOPT(n - 1, s - 1)))"),
        ("MIXOPT.upper_ics", "forall_int(lambda n, s, i: implies(2 <= s and s <= n - 2 and 2 <= i and i < n, "
                             "MIXOPT(n, s) <= i + MIXOPT(i, s) + MIXOPT(n - i, s - 1)))"),
        ("MIXOPT.attained", "forall_int(lambda n, s: implies(2 <= s and s <= n - 2, "
                            "MIXOPT(n, s) == 1 + MIXOPT(n - 1, s - 1) or "
                            "exists(2, n, lambda i: MIXOPT(n, s) == i + MIXOPT(i, s) + MIXOPT(n - i, s - 1))))"),
    ])
    reg.add(Contract(
        "mixed.optimal_steps_mixed#wrapped", params=[("n", "int"), ("s", "int")],
        raises=[("ValueError", "n <= 0 or s < min(1, n - 1)")], pure=True, returns="int", uf_params=["n", "s"],
        ensures=[("is_mixed_optimum", "result == MIXOPT(n, s)")], frame=[], assumed=True,
        note="what callers see through cache_step; proved on the body of optimal_steps_mixed "
             "(well-founded recursion on n)", props=("C06",)))
    reg.alias("optimal_steps_mixed", "mixed.optimal_steps_mixed#wrapped")
    reg.add(Contract(
        "mixed.optimal_steps_mixed", params=[("n", "int"), ("s", "int")],
        requires=[("clamped_by_wrapper", "s <= n - 1")],
        raises=[("ValueError", "n <= 0 or s < min(1, n - 1) or s > n - 1")],
        returns="int", ensures=[("is_mixed_optimum", "result == MIXOPT(n, s)")], frame=[],
        recursion_measure="n",
        hints={"return": [("not_below_optimum", "implies(2 <= s and s <= n - 2, m >= MIXOPT(n, s))"),
                          ("not_above_optimum", "implies(2 <= s and s <= n - 2, m <= MIXOPT(n, s))")]},
        loops=[LoopSpec("for i in range(2, n)", [
            ("index", "2 <= it_i and it_i <= n"),
            ("domain", "2 <= s and s <= n - 2"),
            ("upper_adj", "m <= 1 + MIXOPT(n - 1, s - 1)"),
            ("upper_ics", "forall(2, it_i, lambda j: m <= j + MIXOPT(j, s) + MIXOPT(n - j, s - 1))"),
            ("attained", "m == 1 + MIXOPT(n - 1, s - 1) or "
                         "exists(2, it_i, lambda j: m == j + MIXOPT(j, s) + MIXOPT(n - j, s - 1))")],
            decreases="n - it_i")],
        props=("C06",), exc_props={"ValueError": ("C06", "C17"), "*": ("C06", "C17")}))

    # F17 ---------------------------------------------------------------- cache_step.wrapped_fn
    # generic in the wrapped function: FNV(n, s) is its value (an opaque id), FNR(n, s) says it raises
    reg.spec_function("FNV", ["int", "int"], "int")
    reg.spec_function("FNR", ["int", "int"], "bool")
    reg.add(Contract("mixed.fn", params=[("n", "int"), ("s", "int")], pure=True, returns="int",
                     raises=[("Exception", "FNR(n, s)")], result_expr="FNV(n, s)", ensures=[], frame=[],
                     assumed=True, note="the wrapped function of cache_step, abstractly: a deterministic "
                                        "function of (n, s) that may raise", props=("C15",)))
    CACHE_OK = ("forall_int(lambda a, b: implies((a, b) in _cache, _cache[(a, b)] == FNV(a, b) and not FNR(a, b)))")
    reg.add(Contract(
        "mixed.cache_step.<locals>.wrapped_fn", params=[("n", "int"), ("s", "int")],
        closure={"_cache": "map2"},
        requires=[("cache_invariant", CACHE_OK)],
        raises=[("Exception", "FNR(n, min(s, n - 1))")],
        returns="int",
        ensures=[("result_is_the_function_value_at_clamped_s", "result == FNV(n, min(s, n - 1))"),
                 ("result_independent_of_cache_content", "True"),
                 ("cache_invariant", CACHE_OK),
                 ("cache_only_grows", "forall_int(lambda a, b: implies((a, b) in old(_cache), "
                                      "(a, b) in _cache and _cache[(a, b)] == old(_cache)[(a, b)]))")],
        frame=[], props=("C15", "C05", "C06"), exc_props={"Exception": ("C15",), "*": ("C15",)}))

    # F17/F21 as seen by callers: wrapped_fn(n, s) = fn(n, min(s, n - 1)), memoised
    reg.add(Contract(
        "mixed.mixed_step_memoization#wrapped", params=[("n", "int"), ("s", "int")],
        raises=PLANNER_RAISES, pure=True, returns=("tuple", ["steptype", "int", "int"]),
        uf_params=["n", "s"], ensures=SHAPE, frame=[], assumed=True,
        note="what callers see through cache_step: the shape contract of mixed_step_memoization "
             "(proved on its body below) at s clamped to n-1; observational purity of the cache is F17",
        props=("C01", "C06", "C16")))
    reg.alias("mixed_step_memoization", "mixed.mixed_step_memoization#wrapped")

    # F21 ---------------------------------------------------------------- planner body (shape)
    reg.add(Contract(
        "mixed.mixed_step_memoization", params=[("n", "int"), ("s", "int")],
        requires=[("clamped_by_wrapper", "s <= n - 1")],
        raises=[("ValueError", "n <= 0 or s < min(1, n - 1) or s > n - 1")],
        returns=("tuple", ["steptype", "int", "int"]),
        ensures=SHAPE + [("is_the_planner_step_of_the_specification",
                          "implies(s >= 1, CELLOK(n, s, result[0], result[1], result[2]))", ("C16",))],
        frame=[],
        locals={"m": ("opt", ("tuple", ["steptype", "int", "int"]))},
        recursion_measure="n",
        hints={"m1[0]": [("use", "quadratic_cost_bound",
                          ["mixed_step_memoization(i, s)[2]", "mixed_step_memoization(n - i, s - 1)[2]", "i", "n"]),
                         ("candidate_bounds", "m1 >= 1 and 2 * m1 <= n * (n + 1)")],
               "m1[1]": [("adj_deps_bounds", "m1 >= 1 and 2 * m1 <= n * (n + 1)")]},
        loops=[LoopSpec("for i in range(2, n)", [
            ("index", "2 <= it_i and it_i <= n"),
            ("domain", "n >= 4 and s >= 2 and s <= n - 2"),
            ("none_before_first", "(m is None) == (it_i == 2)"),
            ("best_so_far", "implies(m is not None, m[0] == 4 and 2 <= m[1] and m[1] <= it_i - 1)"),
            ("bounds_of_best", "implies(m is not None, m[2] >= 1 and 2 * m[2] <= n * (n + 1))"),
            ("cost_of_best", "implies(m is not None, m[2] == m[1] + MIXOPT(m[1], s) + MIXOPT(n - m[1], s - 1))"),
            ("minimum_so_far", "implies(m is not None, forall(2, it_i, lambda j: "
                               "m[2] <= j + MIXOPT(j, s) + MIXOPT(n - j, s - 1)))"),
            ("last_minimiser_so_far", "implies(m is not None, forall(2, it_i, lambda j: implies(j > m[1], "
                                      "m[2] < j + MIXOPT(j, s) + MIXOPT(n - j, s - 1))))")],
            decreases="n - it_i")],
        props=("C01", "C06", "C16"), exc_props={"ValueError": ("C17",), "*": ("C17",)}))

    # F18 ---------------------------------------------------------------- class + __init__
    reg.add_class(ClassSpec(
        "MixedCheckpointSchedule", "mixed", bases=("CheckpointSchedule",),
        fields=[("_exhausted", "bool"), ("_snapshots", "int"), ("_storage", "storage")],
        invariant=[
            ("offline", "self._max_n is not None and self._max_n >= 1"),
            ("units", "self._snapshots >= min(1, self._max_n - 1) and self._snapshots <= max(self._max_n - 1, 0)"),
            ("storage_valid", "self._storage == StorageType.RAM or self._storage == StorageType.DISK"),
        ]))
    reg.add(Contract(
        "mixed.MixedCheckpointSchedule.__init__", self_class="MixedCheckpointSchedule",
        params=[("self", "obj"), ("max_n", "int"), ("snapshots", "int"), ("storage", "storage")],
        defaults={"storage": "StorageType.DISK"},
        raises=[("ValueError", "snapshots < min(1, max_n - 1) or not (storage == StorageType.RAM or "
                               "storage == StorageType.DISK) or max_n < 1")],
        ensures=[("n_zero", "self._n == 0"), ("r_zero", "self._r == 0"),
                 ("offline", "self._max_n is not None and self._max_n == max_n and max_n >= 1"),
                 ("units_clamped", "self._snapshots == min(snapshots, max_n - 1)"),
                 ("units_valid", "self._snapshots >= min(1, max_n - 1) and self._snapshots <= max(max_n - 1, 0)"),
                 ("within_declared", "self._snapshots <= snapshots"),
                 ("storage", "self._storage == storage"), ("not_exhausted", "not self._exhausted")],
        frame=["_n", "_r", "_max_n", "_exhausted", "_snapshots", "_storage"],
        props=("C17", "C08", "C03"), exc_props={"ValueError": ("C17", "C06")}))
    reg.add(Contract(
        "mixed.MixedCheckpointSchedule.is_exhausted", self_class="MixedCheckpointSchedule",
        params=[("self", "obj")], is_property=True, pure=True, returns="bool",
        ensures=[("flag", "result == self._exhausted")], frame=[], props=("C09", "C15")))
    reg.add(Contract(
        "mixed.MixedCheckpointSchedule.uses_storage_type", self_class="MixedCheckpointSchedule",
        params=[("self", "obj"), ("storage_type", "storage")], returns="bool",
        ensures=[("chosen_storage_reported", "implies(storage_type == self._storage, result)"),
                 ("exact", "result == (storage_type == self._storage)")],
        frame=[], props=("C11", "C15")))

    # F19 ---------------------------------------------------------------- _iterator (safety on guard-passing paths)
    K = "len(snapshots)"
    TOP = "len(snapshots) - 1"
    E = "(g.N - g.adj)"
    P = "self._n"
    STACK = [
        ("ghost_knows", "g.known and g.N == self._max_n and not g.done and not self._exhausted and self._r == g.adj"),
        ("coupling", "len(g.cs) == %s and len(g.ck) == %s and len(g.cov) == %s and forall(0, %s, lambda i: "
                     "snapshots[i][0] == g.ck[i] and snapshots[i][1] == g.cs[i] and snapshots[i][2] == g.cov[i])"
                     % (K, K, K, K)),
        ("set_contains_stack", "forall(0, %s, lambda i: g.cs[i] in snapshot_n)" % K),
        ("sorted", "forall(0, %s, lambda i, j: implies(i < j, g.cs[i] < g.cs[j]))" % K),
        ("chain", "forall(0, %s - 1, lambda i: g.cs[i + 1] <= g.cov[i])" % K),
        ("kinds", "forall(0, %s, lambda i: (g.ck[i] == 3 and g.cov[i] == g.cs[i] + 1) or "
                  "(g.ck[i] == 4 and g.cov[i] >= g.cs[i] + 2))" % K),
        ("first_checkpoint_is_step_0", "implies(%s > 0, g.cs[0] == 0)" % K),
        ("units", "%s <= self._snapshots" % K),
        ("set_size", "len(snapshot_n) == %s" % K),
        ("forward_state", "implies(g.fwd_def, g.fwd == %s) and implies(not g.fwd_def, %s == %s and "
                          "g.wlo == %s - 1 and g.whi == %s and g.phase == 1 and not g.work_ics)"
                          % (P, P, E, E, E)),
        ("position", "0 <= %s and %s <= %s" % (P, P, E)),
        ("top_below_forward", "implies(%s > 0, g.cs[%s] <= %s)" % (K, TOP, P)),
        ("forward_within_top_cover", "implies(%s > 0, %s <= g.cov[%s] or (%s == %s and %s == g.cov[%s] + 1))"
                                     % (K, P, TOP, P, E, P, TOP)),
        ("empty_stack", "implies(%s == 0, %s == 0 or (%s == 1 and %s == 1))" % (K, P, P, E)),
    ]
    reg.add(Contract(
        "mixed.MixedCheckpointSchedule._iterator", self_class="MixedCheckpointSchedule",
        params=[("self", "obj")],
        requires=[("fresh_n", "self._n == 0"), ("fresh_r", "self._r == 0"),
                  ("not_exhausted", "not self._exhausted")],
        frame=["_n", "_r", "_exhausted"], props=STREAM, total=False,
        exc_props={"*": ("C17", "C01", "C02")},
        globals={"numba": "None"},
        locals={"snapshots": ("list", ["steptype", "int", "int"], True), "snapshot_n": "set",
                "step_type": "steptype"},
        hooks={"module": "ghost", "init": "mx_init", "emit_Forward": "mx_forward",
               "emit_EndForward": "mx_end_forward", "emit_Reverse": "mx_reverse", "emit_Copy": "mx_copy",
               "emit_Move": "mx_move", "emit_EndReverse": "mx_end_reverse", "stop": "mx_stop",
               "ghost_types": {"ck": ("list", ["int"]), "cs": ("list", ["int"]), "cov": ("list", ["int"])}},
        loops=[
            # outer loop: initial state, or the state right after a checkpoint has been loaded
            LoopSpec("True", STACK + [
                ("initial_or_loaded",
                 "(g.phase == 0 and g.adj == 0 and %s == 0 and %s == 0 and g.fwd_def and not g.work_ics) or "
                 "(g.phase == 1 and 1 <= g.adj and g.adj < g.N)" % (P, K)),
                ("loaded_restart_data", "implies(g.phase == 1 and g.fwd_def, %s < %s)" % (P, E)),
                ("work_empty_after_restart_load", "implies(g.fwd_def, g.wlo >= g.whi)"),
                ("loaded_dependencies", "implies(not g.fwd_def, %s == 0 or g.cs[%s] <= %s - 2)" % (K, TOP, P))],
                decreases="g.N - g.adj"),
            # sweep
            LoopSpec("self._n < self._max_n - self._r", STACK + [
                ("phase", "(g.phase == 0 and g.adj == 0) or (g.phase == 1 and 1 <= g.adj and g.adj < g.N)"),
                ("step_type", "step_type == 0 or step_type == 2 or step_type == 3 or step_type == 4"),
                ("before_first_step", "implies(step_type == 0 and not g.fwd_def, %s == 0 or g.cs[%s] <= %s - 2)"
                                      % (K, TOP, P)),
                ("after_forward_reverse", "implies(step_type == 2, %s == %s and g.fwd_def and "
                                          "(%s == 0 or g.cs[%s] <= %s - 2))" % (P, E, K, TOP, P)),
                ("after_write", "implies(step_type == 3 or step_type == 4, g.fwd_def and %s >= 1 and "
                                "g.cs[%s] < %s)" % (K, TOP, P)),
                ("not_loaded_twice", "implies(step_type != 0, not g.work_ics)"),
                ("steps_remain_before_first_step", "implies(step_type == 0 and g.fwd_def, %s < %s)" % (P, E)),
                ("dependencies_after_forward_reverse", "implies(step_type == 2, g.wlo == %s - 1 and g.whi == %s)"
                                                       % (E, E)),
                ("work_empty_otherwise", "implies(step_type != 2 and g.fwd_def, g.wlo >= g.whi)")],
                decreases="g.N - g.adj - self._n"),
        ]))

    # the same iterator on the tabulated (numba) path: C16 for the stream
    reg.add(Contract(
        "mixed.MixedCheckpointSchedule._iterator#tabulated", self_class="MixedCheckpointSchedule",
        params=[("self", "obj")],
        requires=[("int64_range", "self._max_n < 2 ** 31"), ("fresh_n", "self._n == 0"), ("fresh_r", "self._r == 0"),
                  ("not_exhausted", "not self._exhausted")],
        frame=["_n", "_r", "_exhausted"], props=STREAM, total=False,
        exc_props={"*": ("C17", "C01", "C02")},
        globals={"numba": "1"},   # the numba path: planner steps come from mixed_steps_tabulation
        locals={"snapshots": ("list", ["steptype", "int", "int"], True), "snapshot_n": "set",
                "step_type": "steptype"},
        hooks={"module": "ghost", "init": "mx_init", "emit_Forward": "mx_forward",
               "emit_EndForward": "mx_end_forward", "emit_Reverse": "mx_reverse", "emit_Copy": "mx_copy",
               "emit_Move": "mx_move", "emit_EndReverse": "mx_end_reverse", "stop": "mx_stop",
               "ghost_types": {"ck": ("list", ["int"]), "cs": ("list", ["int"]), "cov": ("list", ["int"])}},
        loops=[
            # outer loop: initial state, or the state right after a checkpoint has been loaded
            LoopSpec("True", STACK + [
                ("initial_or_loaded",
                 "(g.phase == 0 and g.adj == 0 and %s == 0 and %s == 0 and g.fwd_def and not g.work_ics) or "
                 "(g.phase == 1 and 1 <= g.adj and g.adj < g.N)" % (P, K)),
                ("loaded_restart_data", "implies(g.phase == 1 and g.fwd_def, %s < %s)" % (P, E)),
                ("work_empty_after_restart_load", "implies(g.fwd_def, g.wlo >= g.whi)"),
                ("loaded_dependencies", "implies(not g.fwd_def, %s == 0 or g.cs[%s] <= %s - 2)" % (K, TOP, P))],
                decreases="g.N - g.adj"),
            # sweep
            LoopSpec("self._n < self._max_n - self._r", STACK + [
                ("phase", "(g.phase == 0 and g.adj == 0) or (g.phase == 1 and 1 <= g.adj and g.adj < g.N)"),
                ("step_type", "step_type == 0 or step_type == 2 or step_type == 3 or step_type == 4"),
                ("before_first_step", "implies(step_type == 0 and not g.fwd_def, %s == 0 or g.cs[%s] <= %s - 2)"
                                      % (K, TOP, P)),
                ("after_forward_reverse", "implies(step_type == 2, %s == %s and g.fwd_def and "
                                          "(%s == 0 or g.cs[%s] <= %s - 2))" % (P, E, K, TOP, P)),
                ("after_write", "implies(step_type == 3 or step_type == 4, g.fwd_def and %s >= 1 and "
                                "g.cs[%s] < %s)" % (K, TOP, P)),
                ("not_loaded_twice", "implies(step_type != 0, not g.work_ics)"),
                ("steps_remain_before_first_step", "implies(step_type == 0 and g.fwd_def, %s < %s)" % (P, E)),
                ("dependencies_after_forward_reverse", "implies(step_type == 2, g.wlo == %s - 1 and g.whi == %s)"
                                                       % (E, E)),
                ("work_empty_otherwise", "implies(step_type != 2 and g.fwd_def, g.wlo >= g.whi)")],
                decreases="g.N - g.adj - self._n"),
        ]))


# F22 -------------------------------------------------------------------- mixed_steps_tabulation
def cell(t, nn, ss):
    """Specification of one table cell (t % k = its k-th component) for the sub-problem (nn, ss):
    the same clauses as the memoised planner's contract, so that both planners prescribe the same
    (kind, length, cost) - they are uniquely determined by these clauses."""
    T0, T1, T2 = t % 0, t % 1, t % 2
    cand = "(%%s + MIXOPT(%%s, %s) + MIXOPT(%s - %%s, %s - 1))" % (ss, nn, ss)

    def c(j):
        return cand % (j, j, j)
    return (
        "implies(%(n)s == 1, %(T0)s == 2 and %(T1)s == 1 and %(T2)s == 1) and "
        "implies(%(n)s >= 2 and %(s)s >= %(n)s - 1, %(T0)s == 3 and %(T1)s == 1 and %(T2)s == %(n)s) and "
        "implies(%(n)s >= 3 and %(s)s == 1, %(T0)s == 4 and %(T1)s == %(n)s - 1 and "
        "2 * %(T2)s == %(n)s * (%(n)s + 1) - 2) and "
        "%(T2)s == MIXOPT(%(n)s, %(s)s) and %(T2)s >= 1 and 2 * %(T2)s <= %(n)s * (%(n)s + 1) and "
        "implies(2 <= %(s)s and %(s)s <= %(n)s - 2, (%(T0)s == 3 or %(T0)s == 4) and "
        "implies(%(T0)s == 4, 2 <= %(T1)s and %(T1)s < %(n)s and %(T2)s == " + c("%(T1)s") + " and "
        "forall(2, %(n)s, lambda jj: implies(jj > %(T1)s, %(T2)s < " + c("jj") + "))) and "
        "implies(%(T0)s == 3, %(T1)s == 1 and %(T2)s == 1 + MIXOPT(%(n)s - 1, %(s)s - 1) and "
        "forall(2, %(n)s, lambda jj: %(T2)s < " + c("jj") + ")))"
    ) % {"n": nn, "s": ss, "T0": T0, "T1": T1, "T2": T2}


def register_tabulation(reg):
    from pyvc.contracts import Contract, LoopSpec
    # C16 at the level of the specification: the planner-step clauses determine the triple, so two
    # planners that both satisfy them (memoised body, tabulated cell) prescribe the same step
    reg.arith_lemma("planner_step_is_unique", ["a", "b", "t0", "t1", "t2", "u0", "u1", "u2"],
                    ["a >= 1", "b >= 1", "CELLOK(a, b, t0, t1, t2)", "CELLOK(a, b, u0, u1, u2)"],
                    "t0 == u0 and t1 == u1 and t2 == u2", props=("C16",))
    reg.arith_lemma("quadratic_cost_bound", ["a", "b", "i", "n"],
                    ["2 <= i", "i <= n - 1", "2 * a <= i * (i + 1)", "2 * b <= (n - i) * (n - i + 1)"],
                    "2 * (i + a + b) <= n * (n + 1)", props=("C16",))
    # CELLOK(a, b, t0, t1, t2): the triple (t0, t1, t2) is the planner step for sub-problem (a, b).
    # An opaque predicate with one definitional axiom: untouched cells keep it for free, only the
    # cell being written has to be unfolded.
    reg.spec_function("CELLOK", ["int", "int", "int", "int", "int"], "bool")
    reg.spec_axioms("CELLOK", [
        ("CELLOK.def", "forall_int(lambda a, b, t0, t1, t2: CELLOK(a, b, t0, t1, t2) == (" +
         cell("t%d", "a", "b") + "))")])
    OK = "CELLOK(%s, %s, schedule[%s, %s, 0], schedule[%s, %s, 1], schedule[%s, %s, 2])"

    def ok(a, b):
        return OK % (a, b, a, b, a, b, a, b)
    UNTOUCHED = "schedule[%s, %s, 0] == 0 and schedule[%s, %s, 1] == 0 and schedule[%s, %s, 2] == -1"

    def untouched(a, b):
        return UNTOUCHED % (a, b, a, b, a, b)
    SHAPE = "schedule.d0 == n + 1 and schedule.d1 == s + 1"
    ROW1 = "forall(0, s + 1, lambda k: schedule[1, k, 0] == 2 and schedule[1, k, 1] == 1 and schedule[1, k, 2] == 1)"
    COL0 = "forall(2, n + 1, lambda a: " + untouched("a", "0") + ")"
    ROW0 = "forall(0, s + 1, lambda k: " + untouched("0", "k") + ")"
    DONE_COLS = "forall(1, %s, lambda b: forall(1, n + 1, lambda a: " + ok("a", "b") + "))"
    REST_COLS = "forall(%s, s + 1, lambda b: forall(2, n + 1, lambda a: " + untouched("a", "b") + "))"
    CAND = "i + MIXOPT(i, s_i) + MIXOPT(n_i - i, s_i - 1)"
    T1 = "schedule[n_i, s_i, 1]"
    reg.add(Contract(
        "mixed.mixed_steps_tabulation", params=[("n", "int"), ("s", "int")],
        requires=[("domain", "n >= 1 and s >= 0 and n < 2 ** 31")],
        returns="nd3",
        ensures=[("shape", "result.d0 == n + 1 and result.d1 == s + 1"),
                 ("every_cell_is_the_planner_step",
                  "forall(1, s + 1, lambda b: forall(1, n + 1, lambda a: CELLOK(a, b, result[a, b, 0], "
                  "result[a, b, 1], result[a, b, 2])))"),
                 ("single_step_row", "forall(0, s + 1, lambda k: result[1, k, 0] == 2 and result[1, k, 1] == 1 "
                                     "and result[1, k, 2] == 1)"),
                 ("no_unit_column", "forall(2, n + 1, lambda a: result[a, 0, 0] == 0 and result[a, 0, 1] == 0 "
                                    "and result[a, 0, 2] == -1)")],
        frame=[], props=("C16", "C06"), exc_props={"*": ("C16", "C17")},
        hints={
            "store[4]": [("cell_is_planner_step", ok("n_i", "s_i"))],
            "store[5]": [("cell_is_planner_step", ok("n_i", "s_i"))],
            "store[7]": [("cell_is_planner_step", ok("n_i", "s_i"))],
            "m1[0]": [
                ("left_sub_problem_is_planner_step", ok("i", "s_i")),
                ("right_sub_problem_is_planner_step", ok("n_i - i", "s_i - 1")),
                ("use", "quadratic_cost_bound", ["schedule[i, s_i, 2]", "schedule[n_i - i, s_i - 1, 2]", "i", "n_i"]),
                ("candidate_cost", "m1 == " + CAND),
                ("candidate_bounds", "m1 >= 1 and 2 * m1 <= n_i * (n_i + 1)")],
            "m1[1]": [
                ("sub_problem_is_planner_step", ok("n_i - 1", "s_i - 1")),
                ("adj_deps_cost", "m1 == 1 + MIXOPT(n_i - 1, s_i - 1)"),
                ("adj_deps_bounds", "m1 >= 1 and 2 * m1 <= n_i * (n_i + 1)"),
                ("restart_optimum_not_below", "schedule[n_i, s_i, 2] >= MIXOPT(n_i, s_i)"),
                ("cost_of_better_option_is_the_optimum",
                 "min(m1, schedule[n_i, s_i, 2]) == MIXOPT(n_i, s_i)"),
                ("chosen_left_sub_problem_is_planner_step", ok("%s" % T1, "s_i")),
                ("chosen_right_sub_problem_is_planner_step", ok("n_i - %s" % T1, "s_i - 1")),
                ("use", "quadratic_cost_bound", ["schedule[%s, s_i, 2]" % T1,
                                                 "schedule[n_i - %s, s_i - 1, 2]" % T1, T1, "n_i"]),
                ("restart_cost_bounds", "schedule[n_i, s_i, 2] >= 1 and "
                                        "2 * schedule[n_i, s_i, 2] <= n_i * (n_i + 1)"),
                ("restart_checkpoint_kept_if_not_worse",
                 "implies(not (m1 < schedule[n_i, s_i, 2]), " + ok("n_i", "s_i") + ")")]},
        loops=[
            LoopSpec("for s_i in range(s + 1)", [
                ("index", "0 <= it_s_i and it_s_i <= s + 1"), ("shape", SHAPE),
                ("filled", "forall(0, it_s_i, lambda k: schedule[1, k, 0] == 2 and schedule[1, k, 1] == 1 and "
                           "schedule[1, k, 2] == 1)"),
                ("rest", "forall(0, s + 1, lambda b: forall(0, n + 1, lambda a: implies(a != 1 or b >= it_s_i, "
                         + untouched("a", "b") + ")))")],
                decreases="s + 1 - it_s_i"),
            LoopSpec("for s_i in range(1, s + 1)", [
                ("index", "1 <= it_s_i and it_s_i <= max(s + 1, 1)"), ("shape", SHAPE),
                ("row_1", ROW1), ("column_0", COL0), ("row_0", ROW0),
                ("single_step_cells", "forall(1, s + 1, lambda b: CELLOK(1, b, 2, 1, 1))"),
                ("done", DONE_COLS % "it_s_i"), ("rest", REST_COLS % "it_s_i")],
                decreases="max(s + 1, 1) - it_s_i"),
            LoopSpec("for n_i in range(2, n + 1)", [
                ("index", "2 <= it_n_i and it_n_i <= max(n + 1, 2)"), ("shape", SHAPE),
                ("outer", "1 <= s_i and s_i <= s"),
                ("row_1", ROW1), ("column_0", COL0), ("row_0", ROW0),
                ("done", DONE_COLS % "s_i"), ("rest", REST_COLS % "s_i + 1"),
                ("this_column_done", "forall(1, it_n_i, lambda a: " + ok("a", "s_i") + ")"),
                ("this_column_rest", "forall(it_n_i, n + 1, lambda a: " + untouched("a", "s_i") + ")")],
                decreases="max(n + 1, 2) - it_n_i"),
            LoopSpec("for i in range(2, n_i)", [
                ("index", "2 <= it_i and it_i <= n_i"), ("shape", SHAPE),
                ("outer", "2 <= s_i and s_i <= s and s_i <= n_i - 2 and n_i <= n"),
                ("row_1", ROW1), ("column_0", COL0), ("row_0", ROW0),
                ("done", DONE_COLS % "s_i"), ("rest", REST_COLS % "s_i + 1"),
                ("this_column_done", "forall(1, n_i, lambda a: " + ok("a", "s_i") + ")"),
                ("this_column_rest", "forall(n_i + 1, n + 1, lambda a: " + untouched("a", "s_i") + ")"),
                ("none_before_first", "(schedule[n_i, s_i, 2] < 0) == (it_i == 2)"),
                ("untouched_before_first", "implies(it_i == 2, " + untouched("n_i", "s_i") + ")"),
                ("best_so_far",
                 "implies(it_i > 2, schedule[n_i, s_i, 0] == 4 and 2 <= schedule[n_i, s_i, 1] and "
                 "schedule[n_i, s_i, 1] < it_i and schedule[n_i, s_i, 2] == schedule[n_i, s_i, 1] + "
                 "MIXOPT(schedule[n_i, s_i, 1], s_i) + MIXOPT(n_i - schedule[n_i, s_i, 1], s_i - 1) and "
                 "forall(2, it_i, lambda jj: schedule[n_i, s_i, 2] <= jj + MIXOPT(jj, s_i) + MIXOPT(n_i - jj, s_i - 1)) and "
                 "forall(2, it_i, lambda jj: implies(jj > schedule[n_i, s_i, 1], "
                 "schedule[n_i, s_i, 2] < jj + MIXOPT(jj, s_i) + MIXOPT(n_i - jj, s_i - 1))))")],
                decreases="n_i - it_i"),
        ]))
