"""Sidecar contracts for the cost tables (F35, F36): Table and get_opt_0_table."""
from pyvc.contracts import Contract, ClassSpec, LoopSpec


def register(reg):
    # F35 ---------------------------------------------------------------- Table
    reg.add_class(ClassSpec(
        "Table", "seq.basic_functions", fields=[("content", ("list", ["real"])), ("size", "int"),
                                                ("print_table", "int")],
        invariant=[("not_printing", "self.print_table == 0"), ("size", "self.size == len(self.content)")],
        index_field="content"))
    reg.add(Contract(
        "seq.basic_functions.Table.__init__", self_class="Table",
        params=[("self", "obj"), ("n", "int"), ("x", "real")], defaults={"n": "0", "x": "0.0"},
        requires=[("empty_table", "n == 0")],
        ensures=[("empty", "len(self.content) == 0 and self.size == 0"), ("not_printing", "self.print_table == 0")],
        frame=["content", "size", "print_table"], props=("C07", "C17")))
    reg.add(Contract(
        "seq.basic_functions.Table.append", self_class="Table", params=[("self", "obj"), ("x", "real")],
        ensures=[("one_longer", "len(self.content) == old(len(self.content)) + 1 and self.size == old(self.size) + 1"),
                 ("appended", "self.content[old(len(self.content))] == x"),
                 ("prefix_kept", "forall(0, old(len(self.content)), lambda i: self.content[i] == old(self.content[i]))")],
        frame=["content", "size"], props=("C07", "C17")))
    reg.add(Contract(
        "seq.basic_functions.Table.__len__", self_class="Table", params=[("self", "obj")], returns="int",
        result_expr="len(self.content)", ensures=[("length", "result == len(self.content)")], frame=[], props=("C07", "C17")))
    reg.add(Contract(
        "seq.basic_functions.Table.__getitem__", self_class="Table", params=[("self", "obj"), ("i", "int")],
        raises=[("IndexError", "i < 0 or i >= len(self.content)")], returns="real",
        result_expr="self.content[i]",
        ensures=[("element", "result == self.content[i]")], frame=[], props=("C07", "C17"),
        exc_props={"IndexError": ("C07", "C17")}))

    # F36 ---------------------------------------------------------------- get_opt_0_table
    # OPT0(m, l, uf, ub): memory-only optimum (DESIGN.md 6.3) as its recurrence; definitional axioms
    reg.spec_function("OPT0", ["int", "int", "real", "real"], "real")
    reg.spec_axioms("OPT0", [
        ("OPT0.no_step", "forall_int(lambda m: forall_real(lambda uf, ub: OPT0(m, 0, uf, ub) == ub))"),
        ("OPT0.one_step", "forall_int(lambda m: forall_real(lambda uf, ub: implies(m >= 1, OPT0(m, 1, uf, ub) == uf + 2 * ub)))"),
        ("OPT0.one_slot", "forall_int(lambda l: forall_real(lambda uf, ub: implies(l >= 2, "
                          "OPT0(1, l, uf, ub) == (l + 1) * ub + l * (l + 1) / 2 * uf)))"),
        # (written over p = l - j and q = j - 1 so that the two sub-problem terms are the trigger)
        ("OPT0.attained", "forall_int(lambda m, l: forall_real(lambda uf, ub: implies(m >= 2 and l >= 2, "
                          "exists(0, l - 1, lambda q: OPT0(m, l, uf, ub) == (q + 1) * uf + "
                          "OPT0(m - 1, l - q - 1, uf, ub) + OPT0(m, q, uf, ub)))))"),
    ])
    # (written over p = l - j and q = j - 1 so that the two sub-problem terms are the trigger)
    reg.axiom_schema("OPT0", "OPT0.upper", ["m", "p", "q"], ["uf", "ub"],
                     "implies(m >= 2 and p >= 1 and q >= 0, OPT0(m, p + q + 1, uf, ub) <= "
                     "(q + 1) * uf + OPT0(m - 1, p, uf, ub) + OPT0(m, q, uf, ub))")
    ROWS = "len(opt) == mmax + 1"
    reg.add(Contract(
        "seq.revolve.get_opt_0_table",
        params=[("lmax", "int"), ("mmax", "int"), ("uf", "real"), ("ub", "real"), ("print_table", "none")],
        defaults={"print_table": "None"},
        requires=[("domain", "lmax >= 0 and mmax >= 1")],
        returns=("objlist", "Table"),
        ensures=[("rows", "len(result) == mmax + 1"),
                 ("row_lengths", "forall(1, mmax + 1, lambda m: len(result[m]) >= lmax + 1)"),
                 ("entries_are_the_memory_only_optimum",
                  "forall(1, mmax + 1, lambda m: forall(0, lmax + 1, lambda l: result[m][l] == OPT0(m, l, uf, ub)))"),
                 ("row_0", "len(result[0]) >= 1 and result[0][0] == ub")],
        frame=[], props=("C05", "C07", "C17", "C19"), exc_props={"*": ("C07", "C17")},
        globals={"__name__": "'checkpoint_schedules.hrevolve_sequences.revolve'"},
        hints={"value": [("not_above_optimum", "value <= OPT0(m, l, uf, ub)"),
                         ("use", "OPT0.upper", ["m", "l - value__argmin - 1", "value__argmin", "uf", "ub"]),
                         ("not_below_optimum", "value >= OPT0(m, l, uf, ub)")]},
        loops=[
            LoopSpec("for m in range(mmax + 1)", [
                ("index", "0 <= it_m and it_m <= mmax + 1"), ("rows", ROWS),
                ("filled", "forall(0, it_m, lambda k: len(opt[k]) == 1 and opt[k][0] == ub)"),
                ("rest_empty", "forall(it_m, mmax + 1, lambda k: len(opt[k]) == 0)")],
                decreases="mmax + 1 - it_m"),
            LoopSpec("for m in range(1, mmax + 1)", [
                ("index", "1 <= it_m and it_m <= mmax + 1"), ("rows", ROWS),
                ("row_0", "len(opt[0]) == 1 and opt[0][0] == ub"),
                ("filled", "forall(1, it_m, lambda k: len(opt[k]) == 2 and opt[k][0] == ub and opt[k][1] == uf + 2 * ub)"),
                ("rest", "forall(it_m, mmax + 1, lambda k: len(opt[k]) == 1 and opt[k][0] == ub)")],
                decreases="mmax + 1 - it_m"),
            LoopSpec("for l in range(2, lmax + 1)", [
                ("index", "2 <= it_l and it_l <= max(lmax + 1, 2)"), ("rows", ROWS),
                ("row_0", "len(opt[0]) == 1 and opt[0][0] == ub"),
                ("row_1", "len(opt[1]) == it_l and forall(0, it_l, lambda l: opt[1][l] == OPT0(1, l, uf, ub))"),
                ("rest", "forall(2, mmax + 1, lambda k: len(opt[k]) == 2 and opt[k][0] == ub and opt[k][1] == uf + 2 * ub)")],
                decreases="max(lmax + 1, 2) - it_l"),
            LoopSpec("for m in range(2, mmax + 1)", [
                ("index", "2 <= it_m and it_m <= max(mmax + 1, 2)"), ("rows", ROWS),
                ("row_0", "len(opt[0]) == 1 and opt[0][0] == ub"),
                ("filled", "forall(1, it_m, lambda k: implies(k <= mmax, len(opt[k]) == max(lmax + 1, 2) and "
                           "forall(0, max(lmax + 1, 2), lambda l: opt[k][l] == OPT0(k, l, uf, ub))))"),
                ("rest", "forall(it_m, mmax + 1, lambda k: len(opt[k]) == 2 and opt[k][0] == ub and opt[k][1] == uf + 2 * ub)")],
                decreases="max(mmax + 1, 2) - it_m"),
            LoopSpec("for l in range(2, lmax + 1)", [
                ("index", "2 <= it_l and it_l <= max(lmax + 1, 2)"), ("rows", ROWS),
                ("outer", "2 <= m and m <= mmax"),
                ("row_0", "len(opt[0]) == 1 and opt[0][0] == ub"),
                ("filled", "forall(1, m, lambda k: len(opt[k]) == max(lmax + 1, 2) and "
                           "forall(0, max(lmax + 1, 2), lambda l: opt[k][l] == OPT0(k, l, uf, ub)))"),
                ("current_row", "len(opt[m]) == it_l and forall(0, it_l, lambda l: opt[m][l] == OPT0(m, l, uf, ub))"),
                ("rest", "forall(m + 1, mmax + 1, lambda k: len(opt[k]) == 2 and opt[k][0] == ub and opt[k][1] == uf + 2 * ub)")],
                decreases="max(lmax + 1, 2) - it_l"),
        ]))
