"""Sidecar contract for hrevolve_sequences/hrevolve.py: get_hopt_table (F38).

Two storage levels (0 = RAM with free transfers, 1 = DISK), as the HRevolve class uses it:
cvect = (c0, c1), wvect = [0, wd], rvect = [0, rd].  The recurrences are those of Herrmann &
Pallez (2020) sec. 3.1 as transcribed in contracts/specs.py (CostTables.hopt / hoptp, which the
bounded layer validates against an exhaustive search over executable schedules):

  HP0(l, m)      level 0, m >= 1 slots (w0 = 0: opt and optp coincide)
  HP1(l, m)      level 1, step 0 already stored on disk, m >= 1 disk slots
  H1(l, m)       level 1, m >= 0 disk slots

Definitional axioms; the table is proved entry by entry against them."""
from pyvc.contracts import Contract, LoopSpec

A0 = "uf, ub"
A1 = "uf, ub, wd, rd, c0"


def register(reg):
    reg.spec_function("HP0", ["int", "int", "real", "real"], "real")
    reg.spec_axioms("HP0", [
        ("HP0.no_step", "forall_int(lambda m: forall_real(lambda uf, ub: HP0(0, m, uf, ub) == ub))"),
        ("HP0.one_step", "forall_int(lambda m: forall_real(lambda uf, ub: implies(m >= 1, "
                         "HP0(1, m, uf, ub) == uf + 2 * ub)))"),
        ("HP0.one_slot", "forall_int(lambda l: forall_real(lambda uf, ub: implies(l >= 2, "
                         "HP0(l, 1, uf, ub) == (l + 1) * ub + l * (l + 1) / 2 * uf)))"),
        ("HP0.single_slot_strategy", "forall_int(lambda l, m: forall_real(lambda uf, ub: implies(m >= 2 and l >= 2, "
                                     "HP0(l, m, uf, ub) <= HP0(l, 1, uf, ub))))"),
        ("HP0.attained", "forall_int(lambda l, m: forall_real(lambda uf, ub: implies(m >= 2 and l >= 2, "
                         "HP0(l, m, uf, ub) == HP0(l, 1, uf, ub) or "
                         "exists(0, l - 1, lambda q: HP0(l, m, uf, ub) == (q + 1) * uf + "
                         "HP0(l - q - 1, m - 1, uf, ub) + HP0(q, m, uf, ub)))))"),
    ])
    reg.axiom_schema("HP0", "HP0.upper", ["m", "p", "q"], ["uf", "ub"],
                     "implies(m >= 2 and p >= 1 and q >= 0, HP0(p + q + 1, m, uf, ub) <= "
                     "(q + 1) * uf + HP0(p, m - 1, uf, ub) + HP0(q, m, uf, ub))")

    sig = ["int", "int", "real", "real", "real", "real", "int"]
    reg.spec_function("HP1", sig, "real")
    reg.spec_function("H1", sig, "real")
    # (c0 >= 1: with no RAM slot the lower level is infeasible, HP0(l, 0) is not a number)
    Q = "forall_int(lambda l, m, c0: forall_real(lambda uf, ub, wd, rd: "
    reg.spec_axioms("H1", [
        ("H1.no_step", Q + "implies(m >= 0 and c0 >= 1, H1(0, m, %s) == ub)))" % A1),
        ("H1.no_disk_slot", Q + "implies(l >= 1 and c0 >= 1, H1(l, 0, %s) == HP0(l, c0, uf, ub))))" % A1),
        ("H1.min", Q + "implies(l >= 1 and m >= 1 and c0 >= 1, H1(l, m, %s) == "
                       "min(HP0(l, c0, uf, ub), wd + HP1(l, m, %s)))))" % (A1, A1)),
    ])
    reg.spec_axioms("HP1", [
        ("HP1.no_step", Q + "implies(m >= 0 and c0 >= 1, HP1(0, m, %s) == ub)))" % A1),
        ("HP1.lower_level", Q + "implies(l >= 1 and m >= 1 and c0 >= 1, HP1(l, m, %s) <= HP0(l, c0, uf, ub))))" % A1),
        ("HP1.attained", Q + "implies(l >= 1 and m >= 1 and c0 >= 1, HP1(l, m, %s) == HP0(l, c0, uf, ub) or "
                             "exists(0, l - 1, lambda q: HP1(l, m, %s) == (q + 1) * uf + "
                             "H1(l - q - 1, m - 1, %s) + rd + HP1(q, m, %s)))))" % (A1, A1, A1, A1)),
    ])
    reg.axiom_schema("HP1", "HP1.upper", ["m", "p", "q", "c0"], ["uf", "ub", "wd", "rd"],
                     "implies(m >= 1 and p >= 1 and q >= 0 and c0 >= 1, HP1(p + q + 1, m, %s) <= "
                     "(q + 1) * uf + H1(p, m - 1, %s) + rd + HP1(q, m, %s))" % (A1, A1, A1))

    # ---------------------------------------------------------------- invariants
    LET = {"c0": "cvect[0]", "c1": "cvect[1]", "wd": "wvect[1]", "rd": "rvect[1]"}

    def sub(e):
        import re
        for k, v in LET.items():
            e = re.sub(r"\b%s\b" % k, v, e)
        return e

    def cell0(y, x):
        return ("(opt[0][%(y)s][%(x)s] == HP0(%(y)s, %(x)s, uf, ub) and optp[0][%(y)s][%(x)s] == HP0(%(y)s, %(x)s, uf, ub) "
                "and not entry_is_inf(opt[0], %(y)s, %(x)s) and not entry_is_inf(optp[0], %(y)s, %(x)s))"
                % {"y": y, "x": x})

    def cell1(y, x):
        return ("(opt[1][%(y)s][%(x)s] == H1(%(y)s, %(x)s, %(a)s) and optp[1][%(y)s][%(x)s] == HP1(%(y)s, %(x)s, %(a)s) "
                "and not entry_is_inf(opt[1], %(y)s, %(x)s) and not entry_is_inf(optp[1], %(y)s, %(x)s))"
                % {"y": y, "x": x, "a": A1})

    def cell1_opt_only(y, x):
        return ("(opt[1][%(y)s][%(x)s] == H1(%(y)s, %(x)s, %(a)s) and not entry_is_inf(opt[1], %(y)s, %(x)s))"
                % {"y": y, "x": x, "a": A1})

    # entries that are never filled keep float('inf') (hrevolve_recurse compares against one of them)
    UNFILLED = "forall(2, lmax + 1, lambda y: entry_is_inf(optp[1], y, 0))"
    SHAPE = (UNFILLED + " and rows(opt[0]) == lmax + 1 and rows(optp[0]) == lmax + 1 and rows(opt[1]) == lmax + 1 and "
             "rows(optp[1]) == lmax + 1 and cols(opt[0]) == c0 + 1 and cols(optp[0]) == c0 + 1 and "
             "cols(opt[1]) == c1 + 1 and cols(optp[1]) == c1 + 1")
    # rows 0 and 1 ("borders") of one level; they are never written again
    ROW0 = {0: "forall(0, c0 + 1, lambda x: %s)" % cell0("0", "x"),
            1: "forall(0, c1 + 1, lambda x: opt[1][0][x] == ub and optp[1][0][x] == ub and "
               "not entry_is_inf(opt[1], 0, x) and not entry_is_inf(optp[1], 0, x))"}
    ROW1 = {0: "implies(lmax >= 1, forall(1, c0 + 1, lambda x: %s))" % cell0("1", "x"),
            1: "implies(lmax >= 1, forall(0, c1 + 1, lambda x: opt[1][1][x] == uf + 2 * ub and "
               "not entry_is_inf(opt[1], 1, x)))"}
    BORDERS = [("row_0_level_0", ROW0[0]), ("row_1_level_0", ROW1[0]),
               ("row_0_level_1", ROW0[1]), ("row_1_level_1", ROW1[1])]
    # level 0: columns 1..upto-1 complete
    def cols0(upto):
        return "forall(1, %s, lambda x: forall(0, lmax + 1, lambda y: %s))" % (upto, cell0("y", "x"))
    LEVEL0 = ("level_0_complete", cols0("c0 + 1"))

    def cols1(upto):
        return "forall(1, %s, lambda x: forall(0, lmax + 1, lambda y: %s))" % (upto, cell1("y", "x"))
    COL1_0 = ("level_1_no_disk_slot_column", "forall(0, lmax + 1, lambda y: %s)" % cell1_opt_only("y", "0"))

    def R(e):
        """the returned pair is (optp, opt)"""
        return e.replace("optp[", "result[0][").replace("opt[", "result[1][")

    def cell1_optp_only(y, x):
        return ("(optp[1][%(y)s][%(x)s] == HP1(%(y)s, %(x)s, %(a)s) and not entry_is_inf(optp[1], %(y)s, %(x)s))"
                % {"y": y, "x": x, "a": A1})

    def opt1_cols(upto):       # columns 0 .. upto-1 of opt[1]
        return "forall(0, %s, lambda x: forall(0, lmax + 1, lambda y: %s))" % (upto, cell1_opt_only("y", "x"))

    def optp1_cols(upto):      # columns 1 .. upto-1 of optp[1]
        return "forall(1, %s, lambda x: forall(0, lmax + 1, lambda y: %s))" % (upto, cell1_optp_only("y", "x"))

    def S(pairs):
        return [(l, sub(e)) for l, e in pairs]

    loops = [
        # for k in range(K): K == 2 is concrete
        LoopSpec("for k in range(K)", [], unroll=True),
        # row l = 0 of level k
        LoopSpec("for m in range(mmax + 1)", S([
            ("index", "0 <= it_m and it_m <= mmax + 1 and mmax == cvect[k]"), ("shape", SHAPE),
            ("earlier_level", "implies(k == 1, %s and %s)" % (ROW0[0], ROW1[0])),
            ("filled", "forall(0, it_m, lambda x: opt[k][0][x] == ub and optp[k][0][x] == ub and "
                       "not entry_is_inf(opt[k], 0, x) and not entry_is_inf(optp[k], 0, x))")]),
            decreases="mmax + 1 - it_m"),
        # row l = 1 of level k
        LoopSpec("for m in range(mmax + 1)", S([
            ("index", "0 <= it_m and it_m <= mmax + 1 and mmax == cvect[k] and lmax >= 1"), ("shape", SHAPE),
            ("earlier_level", "implies(k == 1, %s and %s)" % (ROW0[0], ROW1[0])),
            ("row_0", "forall(0, mmax + 1, lambda x: opt[k][0][x] == ub and optp[k][0][x] == ub and "
                      "not entry_is_inf(opt[k], 0, x) and not entry_is_inf(optp[k], 0, x))"),
            ("filled", "forall(0, it_m, lambda x: implies(x >= 1 or k >= 1, opt[k][1][x] == uf + 2 * ub and "
                       "optp[k][1][x] == uf + 2 * ub and not entry_is_inf(opt[k], 1, x) and "
                       "not entry_is_inf(optp[k], 1, x)))")]),
            decreases="mmax + 1 - it_m"),
        # level 0, one slot
        LoopSpec("for l in range(2, lmax + 1)", S([
            ("index", "2 <= it_l and it_l <= max(lmax + 1, 2)"), ("shape", SHAPE)] + BORDERS + [
            ("filled", "forall(2, it_l, lambda y: %s)" % cell0("y", "1"))]),
            decreases="max(lmax + 1, 2) - it_l"),
        # level 0, m >= 2 slots
        LoopSpec("for m in range(2, mmax + 1)", S([
            ("index", "2 <= it_m and it_m <= max(mmax + 1, 2) and mmax == c0"), ("shape", SHAPE)] + BORDERS + [
            ("columns_done", cols0("min(it_m, c0 + 1)"))]),
            decreases="max(mmax + 1, 2) - it_m"),
        LoopSpec("for l in range(2, lmax + 1)", S([
            ("index", "2 <= it_l and it_l <= max(lmax + 1, 2) and 2 <= m and m <= mmax and mmax == c0"),
            ("shape", SHAPE)] + BORDERS + [
            ("columns_done", cols0("m")),
            ("current_column", "forall(2, it_l, lambda y: %s)" % cell0("y", "m"))]),
            decreases="max(lmax + 1, 2) - it_l"),
        # for k in range(1, K)
        LoopSpec("for k in range(1, K)", [], unroll=True),
        LoopSpec("for l in range(2, lmax + 1)", S([
            ("index", "2 <= it_l and it_l <= max(lmax + 1, 2) and k == 1"), ("shape", SHAPE)] + BORDERS + [
            LEVEL0,
            ("filled", "forall(2, it_l, lambda y: %s)" % cell1_opt_only("y", "0"))]),
            decreases="max(lmax + 1, 2) - it_l"),
        LoopSpec("for m in range(1, mmax + 1)", S([
            ("index", "1 <= it_m and it_m <= max(mmax + 1, 1) and k == 1 and mmax == c1"), ("shape", SHAPE)]
            + BORDERS[:3] + [LEVEL0,
            ("opt_columns_done", opt1_cols("min(it_m, c1 + 1)")),
            ("optp_columns_done", optp1_cols("min(it_m, c1 + 1)"))]),
            decreases="max(mmax + 1, 1) - it_m"),
        LoopSpec("for l in range(1, lmax + 1)", S([
            ("index", "1 <= it_l and it_l <= max(lmax + 1, 1) and k == 1 and 1 <= m and m <= mmax and mmax == c1"),
            ("shape", SHAPE)] + BORDERS[:3] + [LEVEL0,
            ("opt_columns_done", opt1_cols("m")),
            ("optp_columns_done", optp1_cols("m")),
            ("current_column_opt", "forall(0, it_l, lambda y: %s)" % cell1_opt_only("y", "m")),
            ("current_column_optp", "forall(0, it_l, lambda y: %s)" % cell1_optp_only("y", "m"))]),
            decreases="max(lmax + 1, 1) - it_l"),
    ]

    reg.add(Contract(
        "seq.hrevolve.get_hopt_table",
        params=[("lmax", "int"), ("cvect", ("tuple", ["int", "int"])), ("wvect", ("tuple", ["real", "real"])),
                ("rvect", ("tuple", ["real", "real"])), ("ub", "real"), ("uf", "real")],
        requires=[("domain", "lmax >= 0 and cvect[0] >= 1 and cvect[1] >= 0"),
                  ("ram_transfers_are_free", "wvect[0] == 0 and rvect[0] == 0")],
        returns=("tuple", [("tuple", ["grid", "grid"]), ("tuple", ["grid", "grid"])]),
        ensures=S([(l, R(e)) for l, e in [
            ("shape", SHAPE),
            ("level_0_entries_are_the_recurrence",
             "forall(1, c0 + 1, lambda x: forall(0, lmax + 1, lambda y: %s))" % cell0("y", "x")),
            ("level_1_entries_are_the_recurrence",
             ("forall(1, c1 + 1, lambda x: forall(0, lmax + 1, lambda y: %s)) and "
              "forall(0, lmax + 1, lambda y: %s)") % (cell1("y", "x"), cell1_opt_only("y", "0")))]]),
        frame=[], props=("C07", "C17"), exc_props={"*": ("C07", "C17")},
        hints={
            # optp[0][l][m] = min([candidates j = 1..l-1] + [single-slot strategy])
            "store[6]": [
                ("not_above_optimum", sub("optp[0][l][m] <= HP0(l, m, uf, ub)")),
                ("use", "HP0.upper", ["m", "l - store__argmin - 1", "store__argmin", "uf", "ub"]),
                ("not_below_optimum", sub("optp[0][l][m] >= HP0(l, m, uf, ub)"))],
            # optp[1][l][m] = min([lower level] + [candidates j = 1..l-1])
            "store[9]": [
                ("not_above_lower_level", sub("optp[1][l][m] <= HP0(l, c0, uf, ub)")),
                ("not_above_any_candidate",
                 sub("forall(0, l - 1, lambda q: optp[1][l][m] <= (q + 1) * uf + H1(l - q - 1, m - 1, %s) + rd + "
                     "HP1(q, m, %s))" % (A1, A1))),
                ("is_lower_level_or_a_candidate",
                 sub("(store__argmin == 0 and optp[1][l][m] == HP0(l, c0, uf, ub)) or "
                     "(1 <= store__argmin and store__argmin <= l - 1 and optp[1][l][m] == store__argmin * uf + "
                     "H1(l - store__argmin, m - 1, %s) + rd + HP1(store__argmin - 1, m, %s))" % (A1, A1))),
                ("not_above_optimum", sub("optp[1][l][m] <= HP1(l, m, %s)" % A1)),
                ("use", "HP1.upper", ["m", "l - store__argmin", "store__argmin - 1", "cvect[0]", "uf", "ub",
                                      "wvect[1]", "rvect[1]"]),
                ("not_below_optimum", sub("optp[1][l][m] >= HP1(l, m, %s)" % A1))],
            # opt[1][l][m] = min(lower level, wd + optp[1][l][m])
            "store[10]": [
                ("lower_level_entry", sub("opt[0][l][c0] == HP0(l, c0, uf, ub)")),
                ("restart_entry", sub("optp[1][l][m] == HP1(l, m, %s)" % A1)),
                ("entry_is_the_optimum", sub("opt[1][l][m] == H1(l, m, %s)" % A1))],
        },
        loops=loops))

    # ---------------------------------------------------------------- hrevolve_aux / hrevolve_recurse
    import re

    def T(e):
        """the same table predicate over the parameters hoptp / hopt with lmax = rows - 1"""
        e = re.sub(r"\boptp\b", "hoptp", e)
        e = re.sub(r"\bopt\b", "hopt", e)
        e = re.sub(r"\blmax\b", "(rows(hopt[0]) - 1)", e)
        e = re.sub(r"\buf\b", "params['uf']", e)
        e = re.sub(r"\bub\b", "params['ub']", e)
        return sub(e)

    ENTRIES = [
        ("shape", SHAPE),
        ("level_0", "forall(1, c0 + 1, lambda x: forall(0, lmax + 1, lambda y: %s))" % cell0("y", "x")),
        ("level_1", "forall(1, c1 + 1, lambda x: forall(0, lmax + 1, lambda y: %s))" % cell1("y", "x")),
        ("level_1_no_slot", "forall(0, lmax + 1, lambda y: %s)" % cell1_opt_only("y", "0")),
    ]
    TABLES = [("tables_if_given:" + l, "implies(hoptp is not None and hopt is not None, %s)" % T(e))
              for l, e in ENTRIES] + \
             [("tables_if_given:large_enough", "implies(hoptp is not None and hopt is not None, rows(hopt[0]) >= l + 1)")]
    PARAMS = ("dict", {"uf": "real", "ub": "real", "up": "int", "wd": ("tuple", ["real", "real"]),
                       "rd": ("tuple", ["real", "real"]), "mx": "none", "one_read_disk": "bool", "fast": "bool",
                       "concat": "int", "print_table": "str"})
    SIG = [("l", "int"), ("K", "int"), ("cmem", "int"), ("cvect", ("tuple", ["int", "int"])),
           ("wvect", ("tuple", ["real", "real"])), ("rvect", ("tuple", ["real", "real"])),
           ("hoptp", ("opt", ("tuple", ["grid", "grid"]))), ("hopt", ("opt", ("tuple", ["grid", "grid"]))),
           ("params", PARAMS)]
    COMMON = [
        ("domain", "l >= 0 and 0 <= K and K <= 1 and 0 <= cmem and cmem <= cvect[K]"),
        ("units", "cvect[0] >= 1 and cvect[1] >= 0"),
        ("ram_transfers_are_free", "wvect[0] == 0 and rvect[0] == 0"),
        ("disk_costs_not_negative", "wvect[1] >= 0 and rvect[1] >= 0"),
        ("costs_are_the_parameters", "params['wd'][0] == wvect[0] and params['wd'][1] == wvect[1] and "
                                     "params['rd'][0] == rvect[0] and params['rd'][1] == rvect[1]"),
    ] + TABLES
    PA = "params['uf'], params['ub'], wvect[1], rvect[1], cvect[0]"
    P0 = "params['uf'], params['ub']"
    reg.add(Contract(
        "seq.hrevolve.hrevolve_aux", params=SIG, kwargs_param="params",
        defaults={"hoptp": "None", "hopt": "None"},
        requires=COMMON, raises=[("KeyError", "cmem == 0")],
        returns=("obj", "Sequence"),
        ensures=[("makespan_level_0", "implies(K == 0, result.makespan == HP0(l, cmem, %s) + (l + 1) * params['uf'])" % P0),
                 ("makespan_level_1", "implies(K == 1, result.makespan == HP1(l, cmem, %s) + (l + 1) * params['uf'])" % PA)],
        frame=[], props=("C07",), exc_props={"KeyError": ("C07", "C17"), "*": ("C07", "C17")},
        locals={"aux": ("obj", "SeqItem")},
        hints={
            "list_mem[0]": [
                ("every_list_entry_is_a_candidate",
                 "forall(0, l - 1, lambda q: list_mem[q] == (q + 1) * params['uf'] + HP0(l - q - 1, cmem - 1, %s) + "
                 "HP0(q, cmem, %s))" % (P0, P0))],
            "jmin[0]": [
                ("chosen_split_is_a_list_entry",
                 "list_mem[jmin - 1] == jmin * params['uf'] + HP0(l - jmin, cmem - 1, %s) + HP0(jmin - 1, cmem, %s)"
                 % (P0, P0)),
                ("use", "HP0.upper", ["cmem", "l - jmin", "jmin - 1", "params['uf']", "params['ub']"]),
                ("split_not_below_optimum", "list_mem[jmin - 1] >= HP0(l, cmem, %s)" % P0),
                ("split_beats_single_slot", "list_mem[jmin - 1] < HP0(l, 1, %s)" % P0),
                ("split_not_above_optimum", "list_mem[jmin - 1] <= HP0(l, cmem, %s)" % P0)],
            "list_mem[1]": [
                ("every_list_entry_is_a_candidate",
                 "forall(0, l - 1, lambda q: list_mem[q] == (q + 1) * params['uf'] + H1(l - q - 1, cmem - 1, %s) + "
                 "rvect[1] + HP1(q, cmem, %s))" % (PA, PA))],
            "jmin[1]": [
                ("chosen_split_is_a_list_entry",
                 "list_mem[jmin - 1] == jmin * params['uf'] + H1(l - jmin, cmem - 1, %s) + rvect[1] + "
                 "HP1(jmin - 1, cmem, %s)" % (PA, PA)),
                ("use", "HP1.upper", ["cmem", "l - jmin", "jmin - 1", "cvect[0]", "params['uf']", "params['ub']",
                                      "wvect[1]", "rvect[1]"]),
                ("split_not_below_optimum", "list_mem[jmin - 1] >= HP1(l, cmem, %s)" % PA),
                ("split_beats_lower_level", "list_mem[jmin - 1] < HP0(l, cvect[0], %s)" % P0),
                ("split_not_above_optimum", "list_mem[jmin - 1] <= HP1(l, cmem, %s)" % PA)],
        },
        loops=[
            LoopSpec("for index in range(l - 1, -1, -1)", [
                ("index", "-1 <= it_index and it_index <= l - 1"),
                ("domain", "l >= 2 and K == 0 and cmem == 1"),
                ("makespan_so_far",
                 "2 * sequence.makespan == 2 * (l - 1 - it_index) * params['ub'] + "
                 "(l - 1 - it_index) * (l + it_index + 4) * params['uf']")],
                decreases="it_index + 1"),
            # walks down to the last operation of the sequence: only `type` is read (termination of
            # this walk over nested sequences is not proved)
            LoopSpec("aux.type == 'Function'", [("makespan_untouched", "True")]),
        ]))
    reg.add(Contract(
        "seq.hrevolve.hrevolve_recurse", params=SIG, kwargs_param="params",
        defaults={"hoptp": "None", "hopt": "None"},
        requires=COMMON, raises=[("KeyError", "l >= 1 and K == 0 and cmem == 0")],
        returns=("obj", "Sequence"),
        ensures=[("makespan_level_0", "implies(K == 0, result.makespan == HP0(l, cmem, %s) + (l + 1) * params['uf'])" % P0),
                 ("makespan_level_1", "implies(K == 1, result.makespan == H1(l, cmem, %s) + (l + 1) * params['uf'])" % PA)],
        frame=[], props=("C07",), exc_props={"KeyError": ("C07", "C17"), "*": ("C07", "C17")}))

    # F41: the entry point used by the HRevolve class
    reg.add(Contract(
        "seq.hrevolve.hrevolve",
        params=[("l", "int"), ("cvect", ("tuple", ["int", "int"])), ("wvect", ("tuple", ["real", "real"])),
                ("rvect", ("tuple", ["real", "real"])), ("fwd_cost", "real"), ("bwd_cost", "real")],
        callees={"revolver_parameters": "seq.utils.revolver_parameters#vectors"},
        requires=[("domain", "l >= 0 and cvect[0] >= 1 and cvect[1] >= 0"),
                  ("ram_transfers_are_free", "wvect[0] == 0 and rvect[0] == 0"),
                  ("disk_costs_not_negative", "wvect[1] >= 0 and rvect[1] >= 0")],
        returns=("obj", "Sequence"),
        ensures=[("makespan_is_the_two_level_optimum",
                  "result.makespan == H1(l, cvect[1], fwd_cost, bwd_cost, wvect[1], rvect[1], cvect[0]) + "
                  "(l + 1) * fwd_cost")],
        frame=[], props=("C07",), exc_props={"*": ("C07", "C17")}))
