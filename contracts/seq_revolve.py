"""Sidecar contracts for the sequence builders (F33, F34, F37): Operation / Sequence abstractions
and revolve().  Only the *makespan* of a sequence is modelled (a real); the bookkeeping lists
(sequence, memory, disk, storage) are never read by the functions under contract."""
from pyvc.contracts import Contract, ClassSpec, LoopSpec
from .shapes import SHAPE

ASSUMED_NOTE = ("small accessor of the sequence algebra, assumed here and validated at run time on the "
                "real classes by the bounded layer of C07 (rtc: sequence_algebra_contracts)")


def register(reg):
    reg.class_aliases["Op"] = "Operation"
    reg.add_class(ClassSpec("Function", "seq.basic_functions", fields=[]))
    reg.add(Contract("seq.basic_functions.Function.__init__", self_class="Function",
                     params=[("self", "obj"), ("name", "str"), ("list", "int"), ("index", "any")],
                     assumed=True, note="opaque label object", ensures=[], frame=[], props=("C07",)))
    # F33: Operation - type, index (int or [a, b]) and the parameter dictionary
    reg.add_class(ClassSpec("Operation", "seq.basic_functions",
                            fields=[("type", "str"), ("index", "any"), ("params", "any")]))
    reg.add(Contract(
        "seq.basic_functions.Operation.__init__", self_class="Operation",
        params=[("self", "obj"), ("operation_type", "str"), ("operation_index", "any"), ("params", "any")],
        assumed=True, note=ASSUMED_NOTE,
        # every construction site of the verified builders produces a well-shaped operation: the
        # shape the Revolve-family iterator relies on (contracts/shapes.py) is an obligation there
        requires=[("shape:" + l, e.replace("self.type", "operation_type").replace("self.index", "operation_index"))
                  for l, e in SHAPE],
        sets={"type": "operation_type", "index": "operation_index", "params": "params"},
        ensures=[], frame=["type", "index", "params"], props=("C07",)))
    COST = [
        ("forward", "implies(self.type == 'Forward', result == (self.index[1] - self.index[0]) * self.params['uf'])"),
        ("backward", "implies(self.type == 'Backward', result == self.params['ub'])"),
        ("read_disk", "implies(self.type == 'Read_disk', result == self.params['rd'])"),
        ("write_disk", "implies(self.type == 'Write_disk', result == self.params['wd'])"),
        # hierarchical operations: index = [level, step]; params['rd'] / ['wd'] are per-level vectors
        ("read_level", "implies(self.type == 'Read', result == self.params['rd'][self.index[0]])"),
        ("write_level", "implies(self.type == 'Write' or self.type == 'Write_Forward', "
                        "result == self.params['wd'][self.index[0]])"),
        ("free", "implies(self.type == 'Read_memory' or self.type == 'Write_memory' or "
                 "self.type == 'Write_Forward_memory' or self.type == 'Discard_memory' or "
                 "self.type == 'Discard_disk' or self.type == 'Discard_Forward_memory' or "
                 "self.type == 'Discard' or self.type == 'Discard_Forward' or self.type == 'Checkpoint', "
                 "result == 0)"),
    ]
    reg.add(Contract(
        "seq.basic_functions.Operation.cost", self_class="Operation", params=[("self", "obj")],
        pure=True, returns="real", assumed=True,
        note="what callers see; the same clauses are proved on the body of Operation.cost in two typed views of "
             "the parameter dictionary (#flat: scalar rd/wd, #levels: per-level vectors), see below",
        ensures=COST, frame=[], props=("C07",)))
    # the body of Operation.cost under contract: `params` is an untyped dictionary in the repository, so the
    # body is verified once per shape the builders construct it with (revolve/disk_revolve/periodic_disk_revolve
    # pass scalars, hrevolve passes per-level vectors); every clause of COST plus "never raises for the
    # operation types the builders emit" is an obligation in each view
    FLAT = ("dict", {"uf": "real", "ub": "real", "rd": "real", "wd": "real"})
    LEVELS = ("dict", {"uf": "real", "ub": "real", "rd": ("list", ["real"]), "wd": ("list", ["real"])})
    KNOWN = ("self.type == 'Forward' or self.type == 'Backward' or self.type == 'Checkpoint' or "
             "self.type == 'Read_memory' or self.type == 'Write_memory' or self.type == 'Write_Forward_memory' or "
             "self.type == 'Discard_memory' or self.type == 'Discard_disk' or self.type == 'Discard_Forward_disk' or "
             "self.type == 'Discard_Forward_memory' or self.type == 'Discard' or self.type == 'Discard_Forward'")
    for tag, pty, extra, keep in (
            ("flat", FLAT, " or self.type == 'Read_disk' or self.type == 'Write_disk'",
             ("forward", "backward", "read_disk", "write_disk", "free")),
            ("levels", LEVELS, " or self.type == 'Read' or self.type == 'Write' or self.type == 'Write_Forward'",
             ("forward", "backward", "read_level", "write_level", "free"))):
        cls = "Operation_" + tag
        reg.add_class(ClassSpec(cls, "seq.basic_functions",
                                fields=[("type", "str"), ("index", "opindex"), ("params", pty)]))
        reg.add(Contract(
            "seq.basic_functions.Operation.cost#" + tag, self_class=cls, params=[("self", "obj")],
            pure=True, returns="real",
            requires=[("emitted_type", KNOWN + extra),
                      ("index_shape", "implies(self.type == 'Forward' or self.type == 'Read' or self.type == 'Write' "
                                      "or self.type == 'Write_Forward', is_pair(self.index))")] +
                     ([("level_in_range", "implies(self.type == 'Read' or self.type == 'Write' or "
                                          "self.type == 'Write_Forward', 0 <= self.index[0] and "
                                          "self.index[0] < len(self.params['rd']) and "
                                          "self.index[0] < len(self.params['wd']))")] if tag == "levels" else []),
            ensures=[(l, e) for l, e in COST if l in keep], frame=[], props=("C07",),
            exc_props={"*": ("C07", "C17")}))
    # F34: Sequence - makespan only
    # `items` is ghost: the number of operations / sub-sequences inserted (only its positivity is used,
    # for the one place where a builder looks at sequence[-1])
    reg.add_class(ClassSpec("Sequence", "seq.basic_functions",
                            fields=[("makespan", "real"), ("type", "str"), ("items", "int")]))
    reg.add_class(ClassSpec("SeqItem", "seq.basic_functions", fields=[("type", "str")]))
    for cls, ens in (("Sequence", [("as_many_as_inserted", "len(result) == self.items")]),
                     ("SeqItem", [("non_empty", "len(result) >= 1")])):
        reg.add(Contract(
            "seq.basic_functions.%s.sequence" % cls, self_class=cls, params=[("self", "obj")],
            is_property=True, pure=False, returns=("objlist", "SeqItem"), assumed=True,
            note="the items of a sequence are opaque: only their `type` is ever read (hrevolve_aux looks "
                 "for a trailing Discard, which costs nothing either way); a nested sequence built by the "
                 "builders is never empty", ensures=ens, frame=[], props=("C07",)))
    reg.add(Contract(
        "seq.basic_functions.Sequence.__init__", self_class="Sequence",
        params=[("self", "obj"), ("function", ("obj", "Function")), ("levels", "any"), ("concat", "int")],
        defaults={"levels": "None", "concat": "0"}, assumed=True, note=ASSUMED_NOTE,
        ensures=[("empty", "self.makespan == 0 and self.items == 0"), ("kind", "self.type == 'Function'")],
        frame=["makespan", "type", "items"], props=("C07",)))
    reg.add(Contract(
        "seq.basic_functions.Sequence.insert", self_class="Sequence",
        params=[("self", "obj"), ("operation", ("obj", "Operation"))], assumed=True, note=ASSUMED_NOTE,
        ensures=[("makespan_grows_by_cost", "self.makespan == old(self.makespan) + OPCOST(operation)"),
                 ("one_more_item", "self.items == old(self.items) + 1")],
        frame=["makespan", "items"], props=("C07",)))
    reg.add(Contract(
        "seq.basic_functions.Sequence.insert_sequence", self_class="Sequence",
        params=[("self", "obj"), ("sequence", ("obj", "Sequence"))], assumed=True, note=ASSUMED_NOTE,
        ensures=[("makespan_adds", "self.makespan == old(self.makespan) + sequence.makespan"),
                 ("one_more_item", "self.items == old(self.items) + 1")],
        frame=["makespan", "items"], props=("C07",)))
    reg.add(Contract(
        "seq.basic_functions.Sequence.shift", self_class="Sequence",
        params=[("self", "obj"), ("size", "int"), ("branch", "int")], defaults={"branch": "-1"},
        assumed=True, note=ASSUMED_NOTE, result_expr="self",
        ensures=[("makespan_unchanged", "self.makespan == old(self.makespan)")], frame=[], props=("C07",)))
    reg.add(Contract(
        "seq.basic_functions.Sequence.remove_useless_wm", self_class="Sequence",
        params=[("self", "obj"), ("K", "int")], defaults={"K": "-1"},
        assumed=True, note=ASSUMED_NOTE + "; the removed first operation is a Write_memory/Checkpoint (cost 0)",
        result_expr="self", ensures=[("makespan_unchanged", "self.makespan == old(self.makespan)")],
        frame=[], props=("C07",)))

    # F37 ---------------------------------------------------------------- revolve
    reg.add(Contract(
        "seq.revolve.revolve",
        params=[("l", "int"), ("cm", "int"), ("rd", "real"), ("wd", "real"), ("fwd_cost", "real"),
                ("bwd_cost", "real"), ("opt_0", ("opt", ("objlist", "Table")))],
        defaults={"opt_0": "None"},
        requires=[("domain", "l >= 0 and cm >= 1"),
                  ("table_if_given", "implies(opt_0 is not None, len(opt_0) >= cm + 1 and "
                                     "forall(1, cm + 1, lambda m: len(opt_0[m]) >= l + 1 and "
                                     "forall(0, l + 1, lambda k: opt_0[m][k] == OPT0(m, k, fwd_cost, bwd_cost))))")],
        returns=("obj", "Sequence"),
        ensures=[("makespan_is_memory_only_optimum",
                  "result.makespan == OPT0(cm, l, fwd_cost, bwd_cost) + (l + 1) * fwd_cost")],
        frame=[], recursion_measure="l + cm", props=("C05", "C07", "C19"),
        exc_props={"ValueError": ("C07", "C17"), "*": ("C07", "C17")},
        hints={"jmin": [
            ("chosen_split_is_a_list_entry",
             "list_mem[jmin - 1] == jmin * fwd_cost + OPT0(cm - 1, l - jmin, fwd_cost, bwd_cost) + "
             "OPT0(cm, jmin - 1, fwd_cost, bwd_cost)"),
            ("every_list_entry_is_a_candidate",
             "forall(0, l - 1, lambda q: list_mem[q] == (q + 1) * fwd_cost + "
             "OPT0(cm - 1, l - q - 1, fwd_cost, bwd_cost) + OPT0(cm, q, fwd_cost, bwd_cost))"),
            ("use", "OPT0.upper", ["cm", "l - jmin", "jmin - 1", "fwd_cost", "bwd_cost"]),
            ("split_not_below_optimum",
             "list_mem[jmin - 1] >= OPT0(cm, l, fwd_cost, bwd_cost)"),
            ("split_not_above_optimum",
             "list_mem[jmin - 1] <= OPT0(cm, l, fwd_cost, bwd_cost)")]},
        loops=[LoopSpec("for index in range(l - 1, -1, -1)", [
            ("index", "-1 <= it_index and it_index <= l - 1"),
            ("domain", "l >= 2 and cm == 1"),
            ("makespan_so_far",
             "2 * sequence.makespan == 2 * (l - 1 - it_index) * bwd_cost + "
             "(l - 1 - it_index) * (l + it_index + 4) * fwd_cost")],
            decreases="it_index + 1")]))
