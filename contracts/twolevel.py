"""Sidecar contracts for checkpoint_schedules/twolevel_binomial.py (F23-F25)."""
from pyvc.contracts import Contract, ClassSpec, LoopSpec

STREAM = ("C01", "C02", "C03", "C04", "C08", "C09", "C12", "C13", "C17", "C18")


def register(reg):
    # block arithmetic with a symbolic period, proved once in isolation and instantiated at `n0s = ...`
    reg.arith_lemma("block_base", ["e", "p"], ["p >= 1", "e >= 1"],
                    "((e - 1) // p) * p <= e - 1 and e - 1 < ((e - 1) // p) * p + p and "
                    "(((e - 1) // p) * p) % p == 0 and ((e - 1) // p) * p >= 0",
                    props=("C01", "C02", "C13"))
    reg.arith_lemma("block_of_boundary", ["e", "p"], ["p >= 1", "e >= 1", "e % p == 0"],
                    "((e - 1) // p) * p + p == e", props=("C01", "C02", "C13"))
    reg.arith_lemma("inside_block_not_multiple", ["b", "x", "p"],
                    ["p >= 1", "b % p == 0", "b < x", "x < b + p"], "x % p != 0", props=("C01",))
    reg.add_class(ClassSpec(
        "TwoLevelCheckpointSchedule", "twolevel_binomial", bases=("CheckpointSchedule",),
        fields=[("_period", "int"), ("_binomial_snapshots", "int"), ("_binomial_storage", "storage"),
                ("_trajectory", "str")],
        invariant=[
            ("period_positive", "self._period >= 1"),
            ("binomial_snapshots_nonnegative", "self._binomial_snapshots >= 0"),
            ("binomial_storage_valid", "self._binomial_storage == StorageType.RAM or "
                                       "self._binomial_storage == StorageType.DISK"),
            ("trajectory_valid", "self._trajectory == 'maximum' or self._trajectory == 'revolve'"),
        ]))
    reg.add(Contract(
        "twolevel_binomial.TwoLevelCheckpointSchedule.__init__", self_class="TwoLevelCheckpointSchedule",
        params=[("self", "obj"), ("period", "int"), ("binomial_snapshots", "int"),
                ("binomial_storage", "storage"), ("binomial_trajectory", "str")],
        defaults={"binomial_storage": "StorageType.DISK", "binomial_trajectory": "'maximum'"},
        raises=[("ValueError", "period < 1 or not (binomial_storage == StorageType.RAM or "
                               "binomial_storage == StorageType.DISK)")],
        ensures=[("n_zero", "self._n == 0"), ("r_zero", "self._r == 0"), ("online", "self._max_n is None"),
                 ("period", "self._period == period and self._period >= 1"),
                 ("snapshots", "self._binomial_snapshots == binomial_snapshots"),
                 ("storage", "self._binomial_storage == binomial_storage"),
                 ("trajectory", "self._trajectory == binomial_trajectory")],
        frame=["_n", "_r", "_max_n", "_period", "_binomial_snapshots", "_binomial_storage", "_trajectory"],
        props=("C17", "C08"), exc_props={"ValueError": ("C17",)}))
    reg.add(Contract(
        "twolevel_binomial.TwoLevelCheckpointSchedule.is_exhausted", self_class="TwoLevelCheckpointSchedule",
        params=[("self", "obj")], is_property=True, pure=True, returns="bool",
        ensures=[("never", "result == False")], frame=[], props=("C09", "C15")))
    reg.add(Contract(
        "twolevel_binomial.TwoLevelCheckpointSchedule.uses_storage_type",
        self_class="TwoLevelCheckpointSchedule", params=[("self", "obj"), ("storage_type", "storage")],
        returns="bool",
        ensures=[("disk_always_used", "implies(storage_type == StorageType.DISK, result)"),
                 ("binomial_storage_reported", "implies(storage_type == self._binomial_storage, result)")],
        frame=[], props=("C11", "C15")))

    PERIODIC = [
        ("N_positive", "g.N >= 1"),
        ("periodic_set", "g.pend % self._period == 0 and g.pend >= 0"),
    ]
    REV = PERIODIC + [
        ("phase", "g.phase == 1 and g.known and not g.done and self._max_n == g.N"),
        ("all_periods_checkpointed", "g.pend - self._period < g.N and g.N <= g.pend"),
        ("work_empty", "g.wlo >= g.whi and not g.work_ics"),
        ("position", "g.fwd_def and g.fwd == self._n"),
        ("ghost_lists", "len(g.cov) == len(g.cs)"),
    ]
    BLOCK = [
        ("counter", "0 <= g.adj and g.adj <= g.N and self._r == g.adj"),
        ("block_base", "n0s % self._period == 0 and 0 <= n0s and n0s < g.N and n0s <= g.N - g.adj and "
                       "g.N - g.adj <= n0s + self._period"),
        ("coupling", "implies(g.N - g.adj > n0s, len(snapshots) == len(g.cs) + 1 and snapshots[0] == n0s and "
                     "forall(0, len(g.cs), lambda i: snapshots[i + 1] == g.cs[i])) and "
                     "implies(g.N - g.adj == n0s, len(snapshots) == 0 and len(g.cs) == 0)"),
        ("sorted", "forall(0, len(snapshots), lambda i, j: implies(i < j, snapshots[i] < snapshots[j]))"),
        ("budget", "len(g.cs) <= self._binomial_snapshots"),
        ("cover_chain", "forall(0, len(g.cs) - 1, lambda i: g.cov[i] >= g.cs[i + 1])"),
    ]
    # C13 potential (see contracts/multistage.py: WADV is the recurrence induced by the real n_advance)
    S_ = "(self._binomial_snapshots + 1)"
    K_ = "len(g.fs)"      # the ghost's copy of the block's checkpoint stack (pushed together with g.P)
    T_ = "self._trajectory"
    E_ = "(g.N - g.adj)"
    TOP = "g.fs[%s - 1]" % K_
    BLOCK_END = "min(n0s + self._period, g.N)"
    TOT = "WADV(g.bl, %s, %s)" % (S_, T_)
    # (the relation for the top entry is stated on its own: after a push the quantified part then only
    # concerns entries the push did not touch)
    CHAIN = ("g.bs == n0s and g.bl == %s - n0s and len(g.P) == %s and len(snapshots) == %s and "
             "forall(0, len(snapshots), lambda i: g.fs[i] == snapshots[i]) and implies(%s >= 1, g.P[0] == 0) and "
             "forall(1, %s - 1, lambda i: g.P[i] == g.P[i - 1] + WADV(g.fs[i] - g.fs[i - 1], %s - i + 1, %s)) "
             "and implies(%s >= 2, g.P[%s - 1] == g.P[%s - 2] + WADV(g.fs[%s - 1] - g.fs[%s - 2], %s - %s + 2, %s))"
             % (BLOCK_END, K_, K_, K_, K_, S_, T_, K_, K_, K_, K_, K_, S_, K_, T_))
    POT_BLOCK = [
        # (at a block's very first iteration the ghost still describes the previous block: its first
        # action, the Copy of the periodic checkpoint, starts the accounting)
        ("untouched_block_has_only_its_periodic_checkpoint", "implies(%s == %s, len(snapshots) == 1)" % (E_, BLOCK_END)),
        ("potential_stack", "implies(%s < %s, %s)" % (E_, BLOCK_END, CHAIN)),
        ("potential", "implies(%(E)s < %(BE)s, (%(K)s == 0 and g.tb == %(TOT)s) or (%(K)s >= 1 and "
                      "g.tb + g.P[%(K)s - 1] + WADV(%(E)s - %(TOP)s, %(S)s - %(K)s + 1, %(T)s) == %(TOT)s))"
         % {"E": E_, "BE": BLOCK_END, "K": K_, "TOT": TOT, "TOP": TOP, "S": S_, "T": T_})]
    POT_INNER = [
        ("potential_stack", CHAIN),
        ("potential", "g.tb + g.P[%(K)s - 1] + WADV(self._n - %(TOP)s, %(S)s - %(K)s + 1, %(T)s) + "
                      "WADV(%(E)s - self._n, %(S)s - %(K)s, %(T)s) == %(TOT)s"
         % {"E": E_, "K": K_, "TOT": TOT, "TOP": TOP, "S": S_, "T": T_})]
    STEP = ["self._max_n - self._r - n0", "n_snapshots", "self._trajectory"]
    reg.add(Contract(
        "twolevel_binomial.TwoLevelCheckpointSchedule._iterator", self_class="TwoLevelCheckpointSchedule",
        params=[("self", "obj")],
        requires=[("fresh_n", "self._n == 0"), ("fresh_r", "self._r == 0"),
                  ("fresh_max_n", "self._max_n is None")],
        frame=["_n", "_r", "_max_n"], props=STREAM, exc_props={"*": ("C17", "C01", "C02")},
        locals={"snapshots": ("list", ["int"])},
        hints={"n0": [("use", "inside_block_not_multiple", ["n0s", "n0", "self._period"])],
               "n1[1]": [("use", "WADV.step", STEP),
                         ("segment_splits",
                          "WADV(%(E)s - n0, %(S)s - %(K)s + 1, %(T)s) == (n1 - n0) + "
                          "WADV(%(E)s - n1, %(S)s - %(K)s, %(T)s) + WADV(n1 - n0, %(S)s - %(K)s + 1, %(T)s)"
                          % {"E": E_, "S": S_, "K": K_, "T": T_})],
               "n1[2]": [("use", "WADV.step", STEP),
                         ("segment_splits",
                          "WADV(%(E)s - n0, %(S)s - %(K)s, %(T)s) == (n1 - n0) + "
                          "WADV(%(E)s - n1, %(S)s - %(K)s - 1, %(T)s) + WADV(n1 - n0, %(S)s - %(K)s, %(T)s)"
                          % {"E": E_, "S": S_, "K": K_, "T": T_})],
               "n0s": [
            ("use", "block_base", ["g.N - g.adj", "self._period"]),
            ("use", "block_of_boundary", ["g.N - g.adj", "self._period"]),
            ("base_is_multiple_of_period", "n0s % self._period == 0"),
            ("base_bounds", "0 <= n0s and n0s <= n and n < n0s + self._period"),
            ("block_ends_at_adjoint_position",
             "g.N - g.adj == g.N or n0s + self._period == g.N - g.adj")]},
        hooks={"module": "ghost", "init": "tl_init", "emit_Forward": "tl_forward",
               "emit_EndForward": "tl_end_forward", "emit_Reverse": "tl_reverse", "emit_Copy": "tl_copy",
               "emit_Move": "tl_move", "emit_EndReverse": "tl_end_reverse",
               "env_frame": ["_n", "_max_n"],
               "ghost_types": {"cs": ("list", ["int"]), "cov": ("list", ["int"]), "P": ("list", ["int"]),
                               "fs": ("list", ["int"])}},
        loops=[
            LoopSpec("self._max_n is None", PERIODIC + [
                ("phase", "g.phase == 0 and not g.done and g.passes == 0 and g.adj == 0 and self._r == 0"),
                ("known_iff_finalised", "(self._max_n is None) == (not g.known)"),
                ("no_extra_checkpoints", "len(g.cs) == 0 and len(g.cov) == 0 and g.wlo >= g.whi and not g.work_ics"),
                ("sweeping", "implies(not g.known, self._n == g.fwd and g.fwd_def and g.fwd == g.pend and "
                             "g.told == g.fwd and g.fwd < g.N)"),
                ("finalised", "implies(g.known, self._max_n == g.N and self._n == g.N and g.fwd_def and "
                              "g.fwd == g.N and g.pend - self._period < g.N and g.N <= g.pend)")],
                decreases="0 if g.known else g.N - g.fwd"),
            LoopSpec("True", REV + [
                ("pass_start", "self._r == 0 and g.adj == 0 and len(g.cs) == 0")]),
            LoopSpec("self._r < self._max_n", REV + [
                ("counter", "0 <= g.adj and g.adj <= g.N and self._r == g.adj"),
                ("at_block_boundary", "g.N - g.adj == g.N or (g.N - g.adj) % self._period == 0"),
                ("stack_empty", "len(g.cs) == 0")],
                decreases="g.N - g.adj"),
            LoopSpec("self._r < self._max_n - n0s", REV + BLOCK + [
                ("top_below_adjoint", "implies(g.N - g.adj > n0s, snapshots[len(snapshots) - 1] <= g.N - g.adj - 1)"),
                ("top_covers", "implies(len(g.cs) >= 1, g.cov[len(g.cs) - 1] >= g.N - g.adj)")] + POT_BLOCK,
                decreases="g.N - g.adj - n0s"),
            LoopSpec("self._n < self._max_n - self._r - 1", REV + BLOCK + [
                ("inside_block", "g.N - g.adj > n0s"),
                ("forward_position", "snapshots[len(snapshots) - 1] < self._n and self._n <= g.N - g.adj - 1"),
                ("top_covers", "implies(len(g.cs) >= 1, g.cov[len(g.cs) - 1] >= self._n)"),
                ("unit_left_or_at_end", "len(snapshots) < self._binomial_snapshots + 1 or "
                                        "self._n == g.N - g.adj - 1")] + POT_INNER,
                decreases="g.N - g.adj - 1 - self._n"),
        ]))
