"""Sidecar contracts for hrevolve_sequences/periodic_disk_revolve.py (F44) and beta (F32)."""
from pyvc.contracts import Contract, ClassSpec, LoopSpec


def register(reg):
    # F32: beta(x, y) = C(x+y, x) for y >= 0, 0 for y < 0.  Factorials are outside the encoding:
    # BETA is uninterpreted here and the equality with math.comb is a bounded clause of C19.
    reg.spec_function("BETA", ["int", "int"], "real")
    reg.add(Contract(
        "seq.basic_functions.beta", params=[("x", "int"), ("y", "int")], pure=True, returns="real",
        uf_params=["x", "y"], assumed=True,
        note="math.factorial quotient; equality with math.comb(x+y, x) is checked on a box (C19)",
        ensures=[("is_BETA", "result == BETA(x, y)")], frame=[], props=("C19",)))
    reg.spec_axioms("BETA", [
        # binomial coefficients are >= 1 (assumed property of beta; beta == math.comb is a bounded clause)
        ("BETA.positive", "forall_int(lambda x, y: implies(x >= 0 and y >= 0, BETA(x, y) >= 1))")])
    # PERIOD: the closed form of Aupy & Herrmann (2017) - definitional axiom
    reg.spec_function("PERIOD", ["int", "real", "real", "real"], "int")
    reg.spec_axioms("PERIOD", [
        ("PERIOD.closed_form", "forall_int(lambda cm: forall_real(lambda uf, rd, wd: implies("
                               "cm >= 0 and uf > 0 and rd >= 0 and wd >= 0, exists_int(lambda t: t >= 0 and "
                               "forall(0, t, lambda k: BETA(cm + 1, k) <= (wd + rd) / uf) and "
                               "BETA(cm + 1, t) > (wd + rd) / uf and PERIOD(cm, uf, rd, wd) == int(BETA(cm, t))))))")])
    # F44: the period is beta(cm, t*) with t* the first t >= 0 with beta(cm+1, t) > (wd+rd)/uf -
    # the closed form of Aupy & Herrmann (2017); it does not depend on the number of steps
    # (the function has no such parameter).
    reg.add(Contract(
        "seq.periodic_disk_revolve.mxrr_close_formula",
        params=[("cm", "int"), ("uf", "real"), ("rd", "real"), ("wd", "real")],
        requires=[("costs", "uf > 0 and rd >= 0 and wd >= 0"), ("slots", "cm >= 0")],
        returns="int",
        ensures=[("local:t_nonnegative", "t >= 0"),
                 ("local:all_smaller_t_do_not_exceed", "forall(0, t, lambda k: BETA(cm + 1, k) <= (wd + rd) / uf)"),
                 ("local:t_exceeds", "BETA(cm + 1, t) > (wd + rd) / uf"),
                 ("local:period_is_beta_cm_t", "result == int(BETA(cm, t))"),
                 ("period_is_the_closed_form", "result == PERIOD(cm, uf, rd, wd)"),
                 ("period_positive", "result >= 1")],
        frame=[], props=("C19",), exc_props={"*": ("C19", "C17")},
        loops=[LoopSpec("beta(cm + 1, t) <= (wd + rd) / uf", [
            ("t_nonnegative", "t >= 0"),
            ("all_smaller_t_do_not_exceed", "forall(0, t, lambda k: BETA(cm + 1, k) <= (wd + rd) / uf)")],
            decreases=None)]))


    # F45 ---------------------------------------------------------------- periodic_disk_revolve
    # PDRC(l, ...): cost of the periodic schedule with period mx, as its recurrence: one period costs a
    # disk write, the sweep over the period, (later) a disk read and the memory-only reversal of the
    # period; the last min(l, mx) steps are reversed from memory.
    COSTS = ["uf", "ub", "rd", "wd"]
    reg.spec_function("PDRC", ["int", "int", "int", "real", "real", "real", "real"], "real")
    reg.axiom_schema("PDRC", "PDRC.last_segment", ["l", "cm", "mx"], COSTS,
                     "implies(0 <= l and l <= mx, PDRC(l, cm, mx, uf, ub, rd, wd) == "
                     "OPT0(cm, l, uf, ub) + (l + 1) * uf)")
    reg.axiom_schema("PDRC", "PDRC.period", ["l", "cm", "mx"], COSTS,
                     "implies(l > mx and mx >= 1, PDRC(l, cm, mx, uf, ub, rd, wd) == wd + mx * uf + "
                     "PDRC(l - mx, cm, mx, uf, ub, rd, wd) + rd + OPT0(cm, mx - 1, uf, ub) + mx * uf)")
    # costs already paid by the forward sweep (S1) / still to be paid by the reverse sweep (S2) when
    # the sweep stands at a multiple x of the period
    reg.spec_function("PDRS1", ["int", "int", "real", "real"], "real")
    reg.axiom_schema("PDRS1", "PDRS1.zero", ["mx"], ["uf", "wd"], "PDRS1(0, mx, uf, wd) == 0")
    reg.axiom_schema("PDRS1", "PDRS1.step", ["x", "mx"], ["uf", "wd"],
                     "implies(x >= 0, PDRS1(x + mx, mx, uf, wd) == PDRS1(x, mx, uf, wd) + wd + mx * uf)")
    reg.spec_function("PDRS2", ["int", "int", "int", "real", "real", "real"], "real")
    reg.axiom_schema("PDRS2", "PDRS2.zero", ["cm", "mx"], ["uf", "ub", "rd"], "PDRS2(0, cm, mx, uf, ub, rd) == 0")
    reg.axiom_schema("PDRS2", "PDRS2.step", ["x", "cm", "mx"], ["uf", "ub", "rd"],
                     "implies(x >= 0, PDRS2(x + mx, cm, mx, uf, ub, rd) == PDRS2(x, cm, mx, uf, ub, rd) + rd + "
                     "OPT0(cm, mx - 1, uf, ub) + mx * uf)")
    reg.arith_lemma("positive_multiple_is_at_least_the_period", ["x", "p"], ["p >= 1", "x > 0", "x % p == 0"],
                    "x >= p and (x - p) % p == 0", props=("C19",))
    reg.arith_lemma("next_multiple", ["x", "p"], ["p >= 1", "x >= 0", "x % p == 0"], "(x + p) % p == 0",
                    props=("C19",))
    R = "PDRC(%s, cm, mx, uf, ub, rd, wd)"
    S1 = "PDRS1(%s, mx, uf, wd)"
    S2 = "PDRS2(%s, cm, mx, uf, ub, rd)"
    TABLE = ("opt_0 is not None and len(opt_0) >= cm + 1 and forall(1, cm + 1, lambda m: len(opt_0[m]) >= mx + 2 and "
             "forall(0, mx + 2, lambda k: opt_0[m][k] == OPT0(m, k, uf, ub)))")
    reg.add(Contract(
        "seq.periodic_disk_revolve.periodic_disk_revolve",
        params=[("l", "int"), ("cm", "int"), ("rd", "real"), ("wd", "real"), ("uf", "real"), ("ub", "real"),
                ("opt_0", "none"), ("opt_1d", "none"), ("mmax", "none")],
        defaults={"opt_0": "None", "opt_1d": "None", "mmax": "None"},
        requires=[("domain", "l >= 0 and cm >= 1 and uf > 0 and rd >= 0 and wd >= 0")],
        returns=("obj", "Sequence"),
        ensures=[("makespan_is_the_periodic_cost_with_the_closed_form_period",
                  "result.makespan == PDRC(l, cm, PERIOD(cm, uf, rd, wd), uf, ub, rd, wd)")],
        frame=[], props=("C19", "C07"), exc_props={"*": ("C19", "C17")},
        hints={"current_task": [
            ("use", "positive_multiple_is_at_least_the_period", ["current_task + mx", "mx"]),
            ("use", "next_multiple", ["current_task - mx", "mx"]),
            ("use", "PDRC.period", ["l - current_task + mx", "cm", "mx", "uf", "ub", "rd", "wd"]),
            ("use", "PDRS1.step", ["current_task - mx", "mx", "uf", "wd"]),
            ("use", "PDRS2.step", ["current_task - mx", "cm", "mx", "uf", "ub", "rd"]),
            ("use", "PDRS2.step", ["current_task", "cm", "mx", "uf", "ub", "rd"])],
            "return": [
            ("use", "PDRS2.zero", ["cm", "mx", "uf", "ub", "rd"])]},
        loops=[
            LoopSpec("l - current_task > mx", [
                ("period", "mx == PERIOD(cm, uf, rd, wd) and mx >= 1"),
                ("table", TABLE),
                ("position", "0 <= current_task and current_task <= l and current_task % mx == 0"),
                ("paid_so_far", "sequence.makespan == " + S1 % "current_task"),
                ("total", R % "l" + " == " + S1 % "current_task" + " + " + R % "l - current_task" + " + "
                 + S2 % "current_task")],
                decreases="l - current_task"),
            LoopSpec("current_task > 0", [
                ("period", "mx == PERIOD(cm, uf, rd, wd) and mx >= 1"),
                ("table", TABLE),
                ("position", "0 <= current_task and current_task % mx == 0"),
                ("remaining", "sequence.makespan == " + R % "l" + " - " + S2 % "current_task")],
                decreases="current_task"),
        ]))
