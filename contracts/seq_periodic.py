"""Sidecar contracts for hrevolve_sequences/periodic_disk_revolve.py (F44) and beta (F32)."""
from pyvc.contracts import Contract, ClassSpec, LoopSpec


def register(reg):
    # F32: beta(x, y) = C(x+y, x) for y >= 0, 0 for y < 0.  Factorials are outside the encoding:
    # BETA is uninterpreted here and the equality with math.comb is a bounded clause of C19.
    reg.spec_function("BETA", ["int", "int"], "real")
    reg.add(Contract(
        "seq.basic_functions.beta", params=[("x", "int"), ("y", "int")], pure=True, returns="real",
        uf_params=["x", "y"], assumed=True,
        note="math.factorial quotient; equality with math.comb(x+y, x) is checked on a box (C19)",
        ensures=[("is_BETA", "result == BETA(x, y)")], frame=[], props=("C19",)))
    # F44: the period is beta(cm, t*) with t* the first t >= 0 with beta(cm+1, t) > (wd+rd)/uf -
    # the closed form of Aupy & Herrmann (2017); it does not depend on the number of steps
    # (the function has no such parameter).
    reg.add(Contract(
        "seq.periodic_disk_revolve.mxrr_close_formula",
        params=[("cm", "int"), ("uf", "real"), ("rd", "real"), ("wd", "real")],
        requires=[("costs", "uf > 0 and rd >= 0 and wd >= 0"), ("slots", "cm >= 0")],
        returns="int",
        ensures=[("t_nonnegative", "t >= 0"),
                 ("all_smaller_t_do_not_exceed", "forall(0, t, lambda k: BETA(cm + 1, k) <= (wd + rd) / uf)"),
                 ("t_exceeds", "BETA(cm + 1, t) > (wd + rd) / uf"),
                 ("period_is_beta_cm_t", "result == int(BETA(cm, t))")],
        frame=[], props=("C19",), exc_props={"*": ("C19", "C17")},
        loops=[LoopSpec("beta(cm + 1, t) <= (wd + rd) / uf", [
            ("t_nonnegative", "t >= 0"),
            ("all_smaller_t_do_not_exceed", "forall(0, t, lambda k: BETA(cm + 1, k) <= (wd + rd) / uf)")],
            decreases=None)]))
